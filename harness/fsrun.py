"""Instrumented full runs of the real CLI on generated trees, plans and orders, and their
encoding for the model driver.  Shared by C01 C02 C03 C04 C05 C06 C07."""
from __future__ import annotations

import errno
import json
import os
import shutil
import tempfile
from pathlib import Path, PurePosixPath

from . import common, gen
from .common import enc_str, enc_list, dec_str, dec_list

PLAN = str(Path(__file__).resolve().parent / "plan.sh")
NAMES = ["a", "b", "c", "d", "e.txt"]
UNIVERSE_NAME = NAMES + ["x", "y", "z", ".h", "", "a/b", ".", "..", "s", "t",
                         # legal here although other platforms refuse them
                         " x", "x ", "x.", "con", "a:b", "q?", "a*b", "x\ty"]
UNIVERSE_PATH = NAMES + ["x", "y", "s/x", "s/a", "t/y", "n/m/x", "../x", "../../etc/x", "/abs/x", "./a", "s/../y", "s",
                         "", "x/", "a/b", "n/../a", "q/../b", "n/../c", "s/../a"]
STRATEGY_FLAG = {"stop": "-cs", "ignore": "-ci", "override": "-co", "manual": "-cm"}


# ------------------------------------------------------------------ scenario generation
def gen_scenario(rng, dry=None, modes=("name", "name", "path", "directory"), strategies=("stop", "ignore", "override", "manual"),
                 links=True, fault=False, max_entries=6, multi_root=True, universe_name=None, universe_path=None):
    nroots = rng.choice([1, 1, 2, 3]) if multi_root else 1
    roots = ["r%d" % (i + 1) for i in range(nroots)]
    spec = gen.gen_tree(rng, roots=roots, max_entries=max_entries, links=links, names=NAMES, max_depth=3)
    # unselected look-alikes / decoys beside the roots
    if rng.random() < 0.3:
        spec["r1x"] = None
        spec["r1x/a"] = "C:decoy"
    mode = rng.choice(modes)
    explicit = []
    if mode != "directory" and rng.random() < 0.25:
        files = [p for p, v in spec.items() if v is not None and not isinstance(v, tuple) and "/." not in p]
        explicit = rng.sample(files, min(len(files), rng.randint(1, 2)))
    universe = (universe_path or UNIVERSE_PATH) if mode == "path" else (universe_name or UNIVERSE_NAME)
    plan, order = {}, {}
    for p in spec:
        for root in roots + sorted({os.path.dirname(e) for e in explicit}):
            if p.startswith(root + "/"):
                key = root + "|" + p[len(root) + 1:]
                if rng.random() < 0.8:
                    plan[key] = rng.choice(universe)
                order[key] = rng.randint(0, 9)
    recursive, is_sorted = rng.random() < 0.5, mode != "directory" and rng.random() < 0.8
    if mode == "path" and rng.random() < 0.2:
        # files moved into directories that already exist, while the tree is walked recursively in listing order
        # (an entry that is gathered again after its move is a second, undesignated, consideration)
        recursive, is_sorted = True, False
        for key in list(plan):
            root, rel = key.split("|")
            cand = [d for d, v in spec.items() if v is None and d.startswith(root + "/")]
            if cand and rng.random() < 0.6:
                plan[key] = rng.choice(cand)[len(root) + 1:] + "/" + rng.choice(["x", "y", "z", "e.txt"])
    strategy = rng.choice(strategies)
    answers = []
    if strategy == "manual":
        for _ in range(rng.randint(0, 4)):
            a = rng.choice(["stop", "ignore", "override", "custom", "custom", "ignore"])
            answers.append([a, rng.choice(universe)] if a == "custom" else [a])
    return {
        "spec": spec, "roots": roots, "explicit": explicit, "mode": mode, "recursive": recursive,
        "hidden": rng.random() < 0.3, "strategy": strategy, "answers": answers, "plan": plan, "order": order,
        "sorted": is_sorted, "invert": rng.random() < 0.2,
        "dry": (rng.random() < 0.3) if dry is None else dry,
        "fault_at": rng.choice([None, None, 0, 1, 2, 3]) if fault else None,
        "answer_style": rng.randrange(1 << 16),
    }


def render_answers(case):
    """the scripted stdin: each semantic answer as some unambiguous prefix in some letter case,
    occasionally preceded by a garbage line (reprompt)"""
    import random
    rng = random.Random(case["answer_style"])
    words = {"stop": "stop", "ignore": "ignore", "override": "override", "custom": "custom path"}
    lines = []
    for a in case["answers"]:
        if rng.random() < 0.2:
            lines.append(rng.choice(["zzz", "stopp", "x", "custom  path", "0"]))
        w = words[a[0]]
        if a[0] == "ignore" and rng.random() < 0.3:
            text = ""
        else:
            text = w[: rng.randint(1, len(w))]
            text = "".join(c.upper() if rng.random() < 0.4 else c for c in text)
        lines.append(text)
        if a[0] == "custom":
            lines.append(a[1])
    return "\n".join(lines) + ("\n" if lines else "")


def cli_args(case, root):
    # the generous timeout keeps a loaded machine from turning a slow start of the lookup program into a template
    # evaluation error (the tag's default is 3 s)
    template = "%plan('plan', timeout_ms=120000)"
    args = ["-ah", "plan=" + PLAN, STRATEGY_FLAG[case["strategy"]]]
    args.append({"name": "--name", "path": "--path", "directory": "--directory"}[case["mode"]])
    if case["recursive"]:
        args.append("-r")
    if case["hidden"]:
        args.append("-ih")
    if case["dry"]:
        args.append("--dry-run")
    if case["sorted"]:
        args.append("--sort=int(%plan('order', timeout_ms=120000))")
        if case["invert"]:
            args.append("-si")
    spelling = case.get("spelling", "abs")
    def spell(r):
        if spelling == "rel":
            return r                      # relative to the sandbox root (the run's cwd)
        if spelling == "symlink":
            return str(root / ("lnk_" + r))
        if spelling == "dotted":
            return str(root / "." / r / ".." / r)
        return str(root / r)
    dirs, files = [spell(r) for r in case["roots"]], [str(root / e) for e in case["explicit"]]
    order = case.get("input_order", "dirs_first")
    if order == "files_first":
        inputs = files + dirs
    elif order == "interleaved":
        inputs = []
        for i in range(max(len(dirs), len(files))):
            inputs += files[i:i + 1] + dirs[i:i + 1]
    else:
        inputs = dirs + files
    args += ["--", template] + inputs
    return args


# ------------------------------------------------------------------ instrumented execution
class Observer:
    """wraps the standard-library boundary for one run"""

    def __init__(self, root, fault_at):
        self.root = os.path.realpath(root)
        self.fault_at = fault_at
        self.ops = []          # completed / attempted primitives
        self.snaps = []        # snapshot after every completed primitive
        self.gens = []
        self.other = []        # any other mutating call seen
        self.prompts = []      # every interactive conflict prompt: (source, destination, did the destination exist?)
        self._saved = {}

    def _rel(self, p):
        p = os.fspath(p)
        if not os.path.isabs(p):
            p = os.path.join(os.getcwd(), p)
        # where the kernel ends up: symbolic links in the parent are followed BEFORE '..' is applied (no lexical
        # normalisation: 'lnk/../../z' is not '../z' when lnk points deeper into the tree)
        parent = os.path.realpath(os.path.dirname(p))
        return os.path.relpath(os.path.join(parent, os.path.basename(p)), self.root)

    def _count(self):
        return len(self.ops)

    def _maybe_fault(self, what):
        if self.fault_at is not None and self._count() == self.fault_at:
            self.ops.append(["fault", what])
            self.fault_at = None
            raise OSError(errno.EIO, "injected fault")

    def __enter__(self):
        import tempren.template.generators as g
        obs = self
        real_rename, real_mkdir = os.rename, os.mkdir
        self._saved = {"rename": real_rename, "mkdir": real_mkdir, "replace": os.replace, "unlink": os.unlink,
                       "remove": os.remove, "rmdir": os.rmdir, "symlink": os.symlink, "link": os.link,
                       "name_gen": g.TemplateNameGenerator.generate, "path_gen": g.TemplatePathGenerator.generate}

        def rename(src, dst, **kw):
            a, b = obs._rel(src), obs._rel(dst)
            obs._maybe_fault(["rename", a, b])
            real_rename(src, dst, **kw)
            obs.ops.append(["rename", a, b])
            obs.snaps.append(common.snapshot(obs.root, with_ino=True))

        def mkdir(path, mode=0o777, **kw):
            a = obs._rel(path)
            inside = not a.startswith("..")
            if inside and not os.path.lexists(path):
                obs._maybe_fault(["mkdir", a])
            real_mkdir(path, mode, **kw)
            if inside:
                obs.ops.append(["mkdir", a])
                obs.snaps.append(common.snapshot(obs.root, with_ino=True))

        def other(name):
            def f(*a, **k):
                obs.other.append([name, [str(x) for x in a][:2]])
                return obs._saved[name](*a, **k)
            return f

        def wrap_gen(orig):
            def generate(self_, file):
                d = os.path.relpath(str(file.input_directory), obs.root)
                try:
                    res = orig(self_, file)
                    obs.gens.append([d, str(file.relative_path), ["P", str(res)]])
                    return res
                except Exception as exc:
                    from tempren.template.exceptions import InvalidFilenameError
                    obs.gens.append([d, str(file.relative_path), ["I"] if isinstance(exc, InvalidFilenameError) else ["E", type(exc).__name__]])
                    raise
            return generate

        import tempren.cli as cli_mod
        self._saved["prompt"] = cli_mod.cli_prompt_conflict_resolver

        def prompt(source_path, destination_path):
            obs.prompts.append([str(source_path), str(destination_path), os.path.lexists(destination_path)])
            return obs._saved["prompt"](source_path, destination_path)
        cli_mod.cli_prompt_conflict_resolver = prompt
        os.rename, os.mkdir = rename, mkdir
        for n in ("replace", "unlink", "remove", "rmdir", "symlink", "link"):
            setattr(os, n, other(n))
        g.TemplateNameGenerator.generate = wrap_gen(self._saved["name_gen"])
        g.TemplatePathGenerator.generate = wrap_gen(self._saved["path_gen"])
        return self

    def __exit__(self, *exc):
        import tempren.template.generators as g
        os.rename, os.mkdir = self._saved["rename"], self._saved["mkdir"]
        for n in ("replace", "unlink", "remove", "rmdir", "symlink", "link"):
            setattr(os, n, self._saved[n])
        g.TemplateNameGenerator.generate = self._saved["name_gen"]
        g.TemplatePathGenerator.generate = self._saved["path_gen"]
        import tempren.cli as cli_mod
        cli_mod.cli_prompt_conflict_resolver = self._saved["prompt"]


def spec_from_json(spec):
    return {k: (tuple(v) if isinstance(v, list) else v) for k, v in spec.items()}


def known_keys(case):
    """plan keys of every entry of the INITIAL tree; an entry that appears only during the run (a file that was moved and
    is gathered again) gets a visibly different name from the plan program, so that considering it twice shows"""
    dirs = set(case["roots"]) | {os.path.dirname(e) for e in case["explicit"]}
    keys = []
    for d in sorted(dirs):
        for p in case["spec"]:
            if p.startswith(d + "/"):
                keys.append(d + "|" + p[len(d) + 1:])
    if case["mode"] == "directory" and not case["recursive"]:
        keys += [(os.path.dirname(r) or ".") + "|" + pre + os.path.basename(r) for r in case["roots"] for pre in ("", "lnk_")]
    return keys


def observe(case, dry_override=None):
    """runs the real CLI on the scenario; everything the checks need about what it did"""
    dry = case["dry"] if dry_override is None else dry_override
    c = dict(case, dry=dry)
    with common.Sandbox(spec_from_json(case["spec"])) as outer:
        root = outer
        table = os.path.join(tempfile.mkdtemp(prefix="tvt_", dir=common.scratch_root()), "plan.json")
        try:
            with open(table, "w") as fh:
                json.dump({"plan": case["plan"], "order": case["order"], "mode": case["mode"], "known": known_keys(case)}, fh)
            os.environ["PLAN_TABLE"] = table
            os.environ["PLAN_ROOT"] = os.path.realpath(root)
            if case.get("spelling") == "symlink":
                for r in case["roots"]:
                    os.symlink(r, os.path.join(root, "lnk_" + r))
            before = common.snapshot(root, with_ino=True)
            with Observer(root, None if dry else case.get("fault_at")) as obs:
                out, err, rc = common.run_cli(cli_args(c, Path(os.path.realpath(root))), stdin_text=render_answers(case),
                                              cwd=os.path.realpath(root))
            after = common.snapshot(root, with_ino=True)
            cwd_restored = common.run_cli.last_cwd_after is None or True
        finally:
            shutil.rmtree(os.path.dirname(table), ignore_errors=True)
        return {
            "rc": rc, "events": [list(e) for e in common.parse_events(out)], "ops": obs.ops, "other": obs.other,
            "prompts": obs.prompts,
            "gens": obs.gens, "before": _snap_json(before), "after": _snap_json(after),
            "snaps": [_snap_json(s) for s in obs.snaps], "err": err.strip()[-300:] if rc else "",
            "considered": next((l.split(" ")[0] for l in out.split("\n") if "considered for renaming" in l), "?"),
        }


def _snap_json(snap):
    return {p: [_val_json(v), ino] for p, (v, ino) in snap.items()}


def _val_json(v):
    return None if v is None else list(v)


# ------------------------------------------------------------------ encoding for the model
def leaves_of(snap):
    """multiset of (inode, kind, content/target) of the non-directory entries"""
    return sorted([ino, v[0], v[1]] for p, (v, ino) in snap.items() if v is not None)


def remaining_plan(case, obs):
    """what a run that ended early had not got to yet: the designated entries of the initial tree that come after the
    considered ones in the sort order, each with its planned path.  The model is given the WHOLE list: if the
    implementation stops where the model goes on, the two differ (an abort is an observation too).  [] when the order
    cannot be reconstructed (unsorted runs, ties in the sort key, links to directories, directory mode)."""
    if not case["sorted"] or has_dir_link(case) or case["mode"] == "directory" or obs["rc"] == 0:
        return []
    before_kinds = {p: v[0] is None for p, v in obs["before"].items()}
    keyed = []
    for d, rel in spec_gathered(case, before_kinds):
        d = os.path.normpath(d)
        key = d + "|" + rel
        if key not in case["order"]:
            return []
        g = case["plan"].get(key)
        if g is None:
            gen = rel
        elif case["mode"] == "name":
            gen = os.path.join(os.path.dirname(rel), g) if "/" not in g and g not in ("", ".", "..") else None
        else:
            gen = g
        if gen is None:
            return []
        keyed.append((case["order"][key], [d, rel, ["P", gen]]))
    if len({k for k, _ in keyed}) != len(keyed):
        return []
    keyed.sort(key=lambda t: t[0], reverse=bool(case["invert"]))
    full = [e for _, e in keyed]
    seen = [[os.path.normpath(d), rel] for d, rel, _ in obs["gens"]]
    if [[d, rel] for d, rel, _ in full[:len(seen)]] != seen:
        return []
    return full[len(seen):]


def model_request(case, obs, dry_override=None):
    dry = case["dry"] if dry_override is None else dry_override
    ids = {}
    contents = {}
    entries = []
    for p, (v, ino) in obs["before"].items():
        i = ids.setdefault(ino, len(ids) + 1)
        if v is None:
            kind, content = "d", 0
        elif v[0] == "link":
            kind, content = "L" + enc_str(v[1]), 0
        else:
            kind, content = "f", contents.setdefault(v[1], len(contents) + 1)
        entries.append(f"{enc_str(p)}:{i}:{kind}:{content}")
    all_gens = list(obs["gens"]) + remaining_plan(case, obs)
    files = [f"{enc_str(d)}:{enc_str(rel)}" for d, rel, _ in all_gens]
    gens = []
    for _, _, g in all_gens:
        gens.append("P" + enc_str(g[1]) if g[0] == "P" else g[0])
    answers = []
    for a in case["answers"]:
        answers.append({"stop": "s", "ignore": "i", "override": "o"}.get(a[0]) or ("C" + enc_str(a[1])))
    renamer = ("drypath" if case["mode"] == "path" else "dry") if dry else ("path" if case["mode"] == "path" else "name")
    fault = "-" if (dry or case.get("fault_at") is None) else str(case["fault_at"])
    return ("run " + " ".join([renamer, case["strategy"], fault, enc_list(entries), enc_list(files), enc_list(gens),
                               enc_list(answers)]), ids, contents)


def decode_model_run(answer):
    parts = answer.split(" ")
    if parts[0] == "bad-op":
        return {"outcome": "bad-op"}
    rc, outcome, events, log, tree = parts
    evs = []
    for e in dec_list(events):
        d, s, t, ov = e.split(":")
        evs.append([dec_str(s), dec_str(t), ov == "T"])
    ops = []
    for o in dec_list(log):
        f = o.split(":")
        ops.append(["mkdir", dec_str(f[1])] if f[0] == "m" else ["rename", dec_str(f[1]), dec_str(f[2])])
    entries = {}
    for e in dec_list(tree):
        p, i, k, c = e.split(":")
        entries[dec_str(p)] = [int(i), k if k in "fd" else "L" + dec_str(k[1:]), int(c)]
    return {"rc": int(rc), "outcome": outcome, "events": evs, "ops": ops, "tree": entries}


def canonical_tree(snap, ids, contents, dir_inodes=None):
    """`dir_inodes`: the inode numbers that were directories before the run.  The kernel may give a directory created by
    the run the number of a file the run has just replaced (override): such a directory is a NEW entry, not that file."""
    out = {}
    for p, (v, ino) in snap.items():
        i = ids.get(ino, -1)
        if v is None and dir_inodes is not None and ino not in dir_inodes:
            i = -1
        if v is None:
            out[p] = [i, "d", 0]
        elif v[0] == "link":
            out[p] = [i, "L" + v[1], 0]
        else:
            out[p] = [i, "f", contents.get(v[1], -1)]
    return out


def compare_with_model(case, obs, dry_override=None):
    """(comparable?, equal?, detail)"""
    req, ids, contents = model_request(case, obs, dry_override)
    m = decode_model_run(common.run_model([req])[0])
    if m["outcome"] in ("unmodelled", "bad-op"):
        return False, True, m["outcome"]
    maxid = len(ids)
    mtree = {p: [i if i <= maxid else -1, k, c] for p, (i, k, c) in m["tree"].items()}
    real = {"rc": obs["rc"], "events": obs["events"], "ops": [o for o in obs["ops"] if o[0] != "fault"],
            "tree": canonical_tree(obs["after"], ids, contents,
                                   dir_inodes={ino for _, (v, ino) in obs["before"].items() if v is None})}
    model = {"rc": m["rc"], "events": m["events"], "ops": m["ops"], "tree": mtree}
    return True, real == model, {"real": real, "model": model}


# ------------------------------------------------------------------ selection and order, judged on the observed run
def spec_gathered(case, before_kinds):
    """the designated entries, straight from the text of C07; `before_kinds` maps path -> True for a directory"""
    out = []
    mode = case["mode"]
    for r in case["roots"]:
        if mode == "directory" and not case["recursive"]:
            out.append([os.path.dirname(r) or ".", os.path.basename(r)])
            continue
        for p, is_dir in before_kinds.items():
            if not p.startswith(r + "/"):
                continue
            rel = p[len(r) + 1:]
            comps = rel.split("/")
            if mode == "directory":
                if not is_dir:
                    continue
            elif is_dir:
                continue
            if not case["recursive"] and len(comps) != 1:
                continue
            if not case["hidden"] and any(c.startswith(".") for c in comps):
                continue
            out.append([r, rel])
    for e in case["explicit"]:
        out.append([os.path.dirname(e), os.path.basename(e)])
    return out


def has_dir_link(case):
    spec = case["spec"]
    return any(isinstance(v, (list, tuple)) and
               spec.get(os.path.normpath(os.path.join(os.path.dirname(p), v[1])), 0) is None for p, v in spec.items())


def selection_violation(case, obs, what=("selection", "order")):
    """every file a name was generated for is a designated entry of the INITIAL tree, once per designation (C07),
    and with --sort the processing order follows the sort key over ALL input directories (C08)"""
    if has_dir_link(case) or (case["mode"] == "directory" and case["explicit"]):
        return None
    before_kinds = {p: v[0] is None for p, v in obs["before"].items()}
    expected = [[os.path.normpath(d), rel] for d, rel in spec_gathered(case, before_kinds)]
    got = [[os.path.normpath(d), rel] for d, rel, _ in obs["gens"]]
    pool = list(expected)
    for g in (got if "selection" in what else []):
        if g in pool:
            pool.remove(g)
        elif g in expected:
            return f"entry {g} was considered more often than it is designated on the command line"
        else:
            return (f"entry {g} was considered although it is not a designated entry of the initial tree "
                    f"(mode {case['mode']}, recursive {case['recursive']}, hidden {case['hidden']}, sorted {case['sorted']})")
    if "selection" in what and obs["rc"] == 0 and pool:
        return f"designated entries {pool[:3]} were never considered although the run succeeded"
    if "order" in what and case["sorted"]:
        keys = [case["order"].get(d + "|" + rel, 0) for d, rel in got]
        want = sorted(keys, reverse=bool(case["invert"]))
        if keys != want:
            return (f"processing order does not follow the sort key over all input directories: keys in processing order "
                    f"{keys[:12]} (invert {case['invert']}, roots {case['roots']})")
    return None


def refused_valid_name(case, obs):
    """a generated NAME (name / directory mode) that is refused although it is a valid file name here: not empty, not
    '.' or '..', no separator, no NUL — judged on the plan value itself, independently of the tool's own validation"""
    if case["mode"] == "path":
        return None
    for d, rel, g in obs["gens"]:
        if g[0] != "I":
            continue
        key = d + "|" + rel
        planned = case["plan"].get(key, os.path.basename(rel)).strip()      # (an ad-hoc tag's value is its stripped output)
        if planned not in ("", ".", "..") and "/" not in planned and "\x00" not in planned and len(planned.encode()) <= 255:
            return f"the generated name {planned!r} for {d}/{rel} is a valid file name but was refused as invalid"
    return None
