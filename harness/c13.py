"""C13 — Built-in help tells the truth about every tag's context and arguments."""
from __future__ import annotations

import ast
import inspect
import itertools
import re
from pathlib import Path

from . import common
from .common import Stream, enc_str, enc_strs, enc_bool, dec_str
from .tmpl import print_value

PROPERTY = "C13"
RULE = ("exhaustive over the live registry (built-in tags, two ad-hoc tags, three aliases — whatever the working tree "
        "defines): the signature line printed by `--help Category.Tag` is parsed into a Sig and cross-checked with "
        "inspect.signature/require_context; a baseline valid call is searched; then every call shape is compiled: "
        "with/without context, each prefix of the positional parameters by position and the rest by name, all by name, "
        "an undeclared name, each required argument omitted, one positional too many, one parameter twice; non-trivial "
        "= the tag has at least one parameter or a context rule; distinct by (tag, shape)")
ASSUMPTIONS = [
    "argument *values* come from a searched baseline the tag accepts; rejections caused by values (not by binding) are "
    "recognised by their message and not compared",
    "CPython's call-binding rules for positional-or-keyword, *args and keyword-only parameters as modelled",
]
TRUSTED = ["model Bind.lean hand-written; tied to the real compiler by stream shapes"]
PROBE = str(Path(__file__).resolve().parent / "probe.sh")
EXTRA = ["-ah", "probe=" + PROBE, "-ah", "Size=" + PROBE, "-a", "Mine=%Upper(){a}", "-a", "Num=%Count(1)", "-a", "Name=x",
         # aliases of every shape: one tag that itself takes an optional context, two tags, a pipe list
         "-a", "Opt=%Ext()", "-a", "Two=%Base()%Ext()", "-a", "Piped=x|%Upper()"]
BINDING_MESSAGES = ("unexpected keyword", "missing", "positional argument", "multiple values", "takes no arguments",
                    "takes 1 positional")

_state = {}


def _registry():
    if "reg" not in _state:
        from tempren.cli import validate_adhoc_tags, validate_aliases, adhoc_tag, alias
        from tempren.pipeline import build_tag_registry
        adhoc = validate_adhoc_tags([[adhoc_tag("probe=" + PROBE)], [adhoc_tag("Size=" + PROBE)]])
        aliases = validate_aliases([[alias("Mine=%Upper(){a}")], [alias("Num=%Count(1)")], [alias("Name=x")],
                                    [alias("Opt=%Ext()")], [alias("Two=%Base()%Ext()")], [alias("Piped=x|%Upper()")]])
        _state["reg"] = build_tag_registry(adhoc, aliases)
    return _state["reg"]


def parse_help_signature(line):
    """`%Trim(width: int, left: bool = False){...}` -> (params, require_context)"""
    m = re.match(r"^%([A-Za-z_][A-Za-z0-9_]*)(\((.*)\))?(\[\{\.\.\.\}\]|\{\.\.\.\})?$", line.strip())
    if not m:
        return None
    marker = m.group(4)
    rc = None if marker == "[{...}]" else True if marker == "{...}" else False
    params = []
    sig = m.group(3) or ""
    tree = ast.parse("def f(" + sig + "): pass").body[0].args
    pos = list(tree.posonlyargs) + list(tree.args)
    ndef = len(tree.defaults)
    for i, a in enumerate(pos):
        params.append({"name": a.arg, "kind": "p", "default": i >= len(pos) - ndef,
                       "ann": ast.unparse(a.annotation) if a.annotation else None})
    if tree.vararg:
        params.append({"name": tree.vararg.arg, "kind": "v", "default": True,
                       "ann": ast.unparse(tree.vararg.annotation) if tree.vararg.annotation else None})
    for a, d in zip(tree.kwonlyargs, tree.kw_defaults):
        params.append({"name": a.arg, "kind": "k", "default": d is not None,
                       "ann": ast.unparse(a.annotation) if a.annotation else None})
    if tree.kwarg:
        params.append({"name": tree.kwarg.arg, "kind": "unsupported-**kwargs", "default": True, "ann": None})
    return {"tag": m.group(1), "params": params, "rc": rc}


def live_signature(cat, tag):
    from tempren.primitives import QualifiedTagName
    factory = _registry().get_tag_factory(QualifiedTagName(tag, cat))
    cls = factory._tag_class
    params = []
    for p in list(inspect.signature(cls.configure).parameters.values())[1:]:
        kind = {p.POSITIONAL_OR_KEYWORD: "p", p.POSITIONAL_ONLY: "p", p.VAR_POSITIONAL: "v", p.KEYWORD_ONLY: "k"}.get(p.kind, "unsupported")
        params.append([p.name, kind, p.default is not p.empty or kind == "v"])
    return {"params": params, "rc": cls.require_context}


CANDIDATES = {
    "int": [1, 2, 10, 16, 0, -1],
    "str": ["x", "KB", "meter", "%Y", "DateTime", "a", "text"],
    "bool": [True, False],
    None: ["x", 1],
}


def _compile(text):
    from tempren.template.compiler import TemplateCompiler
    from tempren.template.exceptions import TemplateError
    try:
        TemplateCompiler(_registry()).compile(text)
        return ["ok"]
    except TemplateError as exc:
        return ["template-error", type(exc).__name__, str(getattr(exc, "message", exc))[:160]]
    except Exception as exc:  # anything else is a crash of the compile phase
        return ["crash", type(exc).__name__, str(exc)[:160]]


def call_text(cat, tag, pos, named, ctx):
    parts = [print_value(v) for v in pos] + [f"{k}={print_value(v)}" for k, v in named]
    return f"%{cat}.{tag}(" + ", ".join(parts) + ")" + ("{}" if ctx == "empty" else "{ctx}" if ctx else "")


def cand(ann):
    if ann is None:
        return CANDIDATES[None]
    for key in ("int", "str", "bool"):
        if key in ann:
            return CANDIDATES[key]
    return CANDIDATES[None]


def find_baseline(cat, tag, sig):
    """values (by name) for the required parameters (+ optional booleans when needed) that compile"""
    required = [p for p in sig["params"] if not p["default"] and p["kind"] in ("p", "k")]
    optional_bools = [p for p in sig["params"] if p["default"] and p["kind"] in ("p", "k") and p["ann"] and "bool" in p["ann"]]
    ctx = sig["rc"] is True
    extras_options = [()] + [(p,) for p in optional_bools] + list(itertools.combinations(optional_bools, 2))
    for extras in extras_options:
        for values in itertools.islice(itertools.product(*[cand(p["ann"]) for p in required]), 300):
            named = [(p["name"], v) for p, v in zip(required, values)] + [(p["name"], True) for p in extras]
            if _compile(call_text(cat, tag, [], named, ctx))[0] == "ok":
                return dict(named)
    return None


def optional_value(cat, tag, sig, baseline, p):
    for v in cand(p["ann"]):
        named = list(baseline.items()) + [(p["name"], v)]
        if _compile(call_text(cat, tag, [], named, sig["rc"] is True))[0] == "ok":
            return v
    return None


def gen_shapes(rng, n, tier):
    out, _, _ = common.run_cli(EXTRA + ["--list-tags"])
    pairs, cat = [], None
    for line in out.split("\n"):
        m = re.match(r"^(\S+):$", line)
        if m and line != "Available tags:":
            cat = m.group(1)
            continue
        m = re.match(r"^  (\S+)\s+- ", line)
        if m and cat:
            pairs.append((cat, m.group(1)))
    cases = []
    for cat, tag in pairs:
        o, e, rc = common.run_cli(EXTRA + ["--help", f"{cat}.{tag}"])
        first = next((l for l in o.split("\n") if l.strip()), "")
        cases.append({"cat": cat, "tag": tag, "help": first.strip(), "help_rc": rc})
    return cases


def shapes_for(sig, baseline, optvals):
    """[(label, positional values, named (name, value) list, context?)]"""
    pos_params = [p for p in sig["params"] if p["kind"] == "p"]
    kw_params = [p for p in sig["params"] if p["kind"] == "k"]
    has_var = any(p["kind"] == "v" for p in sig["params"])
    base_ctx = sig["rc"] is True
    values = dict(baseline)
    values.update({k: v for k, v in optvals.items() if v is not None})
    shapes = []
    base_named = list(baseline.items())
    shapes.append(("all-named", [], base_named, base_ctx))
    shapes.append(("flip-context", [], base_named, not base_ctx))
    # a context that is present but has no elements is still a context (and "|%Tag()" likewise)
    shapes.append(("empty-context", [], base_named, "empty"))
    # prefixes by position: the first i positional parameters must all have values
    for i in range(1, len(pos_params) + 1):
        prefix = pos_params[:i]
        if not all(p["name"] in values for p in prefix):
            break
        rest = [(k, v) for k, v in base_named if k not in {p["name"] for p in prefix}]
        shapes.append((f"positional-{i}", [values[p["name"]] for p in prefix], rest, base_ctx))
    for p in sig["params"]:
        if p["kind"] in ("p", "k") and p["name"] in values and p["name"] not in baseline:
            shapes.append((f"optional-named-{p['name']}", [], base_named + [(p["name"], values[p["name"]])], base_ctx))
    shapes.append(("undeclared-name", [], base_named + [("zz_undeclared", 1)], base_ctx))
    # a documented name in another letter case is another (undeclared) name
    for k, v in base_named:
        if k.upper() != k:
            shapes.append((f"case-variant-{k}", [], [(a, b) if a != k else (k.upper(), b) for a, b in base_named], base_ctx))
            break
    for p in sig["params"]:
        if p["kind"] in ("p", "k") and p["name"] in values and p["name"] not in baseline and p["name"].upper() != p["name"]:
            shapes.append((f"case-variant-{p['name']}", [], base_named + [(p["name"].capitalize(), values[p["name"]])], base_ctx))
            break
    for k, _ in base_named:
        shapes.append((f"omit-{k}", [], [(a, b) for a, b in base_named if a != k], base_ctx))
    if all(p["name"] in values for p in pos_params):
        allpos = [values[p["name"]] for p in pos_params]
        rest = [(k, v) for k, v in base_named if k not in {p["name"] for p in pos_params}]
        shapes.append(("one-too-many", allpos + ["extra"], rest, base_ctx))
        if pos_params:
            shapes.append(("twice", allpos, rest + [(pos_params[0]["name"], values[pos_params[0]["name"]])], base_ctx))
    if has_var:
        shapes.append(("var-positional-3", [values[p["name"]] for p in pos_params if p["name"] in values] + ["a", "b", "c"],
                       [(k, v) for k, v in base_named if k not in {p["name"] for p in pos_params}], base_ctx))
    return shapes


def impl_shapes(case):
    cat, tag = case["cat"], case["tag"]
    if case["help_rc"] != 0:
        return {"error": f"--help {cat}.{tag} exits {case['help_rc']}"}
    sig = parse_help_signature(case["help"])
    if sig is None or sig["tag"] != tag:
        return {"error": f"cannot parse help signature {case['help']!r}"}
    if any(p["kind"].startswith("unsupported") for p in sig["params"]):
        return {"error": "signature uses **kwargs (not modelled)"}
    live = live_signature(cat.lower() if cat.lower() in _registry().category_map else cat, tag) \
        if False else live_signature(cat, tag)
    printed = {"params": [[p["name"], p["kind"], p["default"]] for p in sig["params"]], "rc": sig["rc"]}
    baseline = find_baseline(cat, tag, sig)
    if baseline is None:
        # no call with the documented parameter NAMES compiles: does the same call written positionally?
        required = [p for p in sig["params"] if not p["default"] and p["kind"] == "p"]
        positional_ok = None
        if required and len(required) == len([p for p in sig["params"] if not p["default"] and p["kind"] in ("p", "k")]):
            for values in itertools.islice(itertools.product(*[cand(p["ann"]) for p in required]), 300):
                text = call_text(cat, tag, list(values), [], sig["rc"] is True)
                if _compile(text)[0] == "ok":
                    positional_ok = text
                    break
        return {"sig": printed, "live": live, "baseline": None, "shapes": [], "positional_ok": positional_ok}
    optvals = {p["name"]: optional_value(cat, tag, sig, baseline, p) for p in sig["params"]
               if p["default"] and p["kind"] in ("p", "k") and p["name"] not in baseline}
    results = []
    for label, pos, named, ctx in shapes_for(sig, baseline, optvals):
        text = call_text(cat, tag, pos, named, ctx)
        results.append({"label": label, "text": text, "nargs": len(pos), "kws": [k for k, _ in named], "ctx": ctx,
                        "outcome": _compile(text)})
    return {"sig": printed, "live": live, "baseline": {k: repr(v) for k, v in baseline.items()}, "shapes": results}


def _enc_sig(printed):
    rc = "n" if printed["rc"] is None else enc_bool(printed["rc"])
    return rc + ";" + ",".join(f"{enc_str(n)}:{k}:{enc_bool(d)}" for n, k, d in printed["params"])


def lines_shapes_from_obs(obs):
    sig = _enc_sig(obs["sig"])
    return [f"bind {sig} {s['nargs']} {enc_strs(s['kws'])} {enc_bool(bool(s['ctx']))}" for s in obs["shapes"]]


def _value_rejection(outcome):
    return (outcome[0] == "template-error" and outcome[1] == "ConfigurationError"
            and not any(m in outcome[2] for m in BINDING_MESSAGES))


def oracle_shapes(case, obs):
    cat, tag = case["cat"], case["tag"]
    if "error" in obs:
        return obs["error"]
    if obs["sig"]["params"] != obs["live"]["params"] or obs["sig"]["rc"] != obs["live"]["rc"]:
        return (f"--help {cat}.{tag} prints {obs['sig']!r} but the instantiated class has {obs['live']!r}")
    if obs.get("baseline") is None and obs.get("positional_ok"):
        return (f"{cat}.{tag}: {obs['positional_ok']!r} is accepted but no call naming the documented parameters "
                f"{[p[0] for p in obs['sig']['params']]} is (a documented parameter name is rejected as a named argument)")
    model = obs.get("model")
    for i, s in enumerate(obs["shapes"]):
        out = s["outcome"]
        if out[0] == "crash":
            return f"{s['text']!r} crashes the compile phase with {out[1]}: {out[2]} (not a template error)"
        label = s["label"]
        ok = out[0] == "ok"
        if label.startswith("case-variant-") and ok:
            return f"an argument name differing from the documented one only in letter case was accepted: {s['text']!r}"
        if label == "undeclared-name" and ok:
            return f"undeclared argument name accepted: {s['text']!r}"
        if label.startswith("omit-") and ok:
            return f"call without required argument accepted: {s['text']!r}"
        if label == "one-too-many" and ok and not any(k == "v" for _, k, _ in obs["sig"]["params"]):
            return f"more positional arguments than documented accepted: {s['text']!r}"
        if label == "flip-context" and ok and obs["sig"]["rc"] is not None:
            return f"context rule of {cat}.{tag} (require_context={obs['sig']['rc']}) not enforced: {s['text']!r}"
        if label == "empty-context" and ok and obs["sig"]["rc"] is False:
            return f"{cat}.{tag} is documented without a context but accepts an empty one: {s['text']!r}"
        if label == "empty-context" and not ok and obs["sig"]["rc"] is not False:
            return f"{cat}.{tag} takes a context but rejects the empty one: {s['text']!r}: {out}"
        if label in ("all-named",) and not ok:
            return f"baseline call rejected on re-compile: {s['text']!r}: {out}"
        if (label.startswith("positional-") or label.startswith("optional-named-")) and not ok and not _value_rejection(out):
            return f"documented parameter rejected: {s['text']!r}: {out[1]} {out[2]}"
        if label == "flip-context" and not ok and obs["sig"]["rc"] is None:
            return f"[{{...}}] tag rejected a context variant: {s['text']!r}: {out}"
    return None


class _ShapesStream(Stream):
    pass


def model_lines(case):
    # the model needs the signature the implementation printed: computed from the observation in `compare`
    return ["isspace 0 1"]  # placeholder request so that the engine calls compare(); real requests are issued there


def model_obs(case, answers):
    return {}


def compare_shapes(case, obs, pred):
    """model verdict per shape vs real compile outcome (value-caused rejections are skipped)"""
    if "error" in obs or not obs["shapes"]:
        return True
    answers = common.run_model(lines_shapes_from_obs(obs))
    for s, a in zip(obs["shapes"], answers):
        accepted = a.split(" ")[2] == "T"
        out = s["outcome"]
        if out[0] == "crash" or _value_rejection(out):
            continue
        if accepted != (out[0] == "ok"):
            obs.setdefault("model_disagrees", []).append([s["text"], a, out])
            return False
    marker = dec_str(answers[0].split(" ")[3]) if answers else None
    return True


def classify_shapes(case, obs):
    if "error" in obs:
        return ["error"]
    out = ["params:%d" % min(len(obs["sig"]["params"]), 4), "rc:%s" % obs["sig"]["rc"],
           "baseline:" + ("found" if obs["baseline"] is not None else "none")]
    for s in obs["shapes"]:
        out.append("shape:" + re.sub(r"-.*", "", s["label"]) + ":" + s["outcome"][0])
        if _value_rejection(s["outcome"]):
            out.append("value-rejection")
    return out


# ------------------------------------------------------------------ CLI: rejections are exit 3 before any file is touched
def gen_cli(rng, n, tier):
    cases = []
    for c in gen_shapes(rng, n, tier):
        cases.append({"cat": c["cat"], "tag": c["tag"], "form": "undeclared"})
        cases.append({"cat": c["cat"], "tag": c["tag"], "form": rng.choice(["empty-context", "empty-pipe"]), "help": c["help"]})
    if tier == "quick":
        cases = [c for c in cases if rng.random() < 0.4]
    return cases


def impl_cli(case):
    form = case.get("form", "undeclared")
    if form == "undeclared":
        text = f"%{case['cat']}.{case['tag']}(zz_undeclared=1)"
    else:
        # a tag documented without context marker, called with its baseline arguments and an empty context
        sig = parse_help_signature(case["help"])
        if sig is None or sig["rc"] is not False or any(p["kind"].startswith("unsupported") for p in sig["params"]):
            return {"skip": True}
        baseline = find_baseline(case["cat"], case["tag"], sig)
        if baseline is None:
            return {"skip": True}
        call = call_text(case["cat"], case["tag"], [], list(baseline.items()), False)
        text = call + "{}" if form == "empty-context" else "|" + call
    with common.Sandbox({"in": None, "in/a.txt": "A", "in/b": "B"}) as root:
        before = common.snapshot(root, with_ino=True)
        o, e, rc = common.run_cli(EXTRA + ["pre" + text, str(root / "in")])
        return {"rc": rc, "unchanged": common.snapshot(root, with_ino=True) == before, "err": e.strip()[-160:]}


def oracle_cli(case, obs):
    if obs.get("skip"):
        return None
    if obs["rc"] != 3 and case.get("form", "undeclared") != "undeclared":
        return (f"{case['cat']}.{case['tag']} is documented without a context but the {case['form']} form gives exit {obs['rc']} "
                f"(expected 3): {obs['err']}")
    if obs["rc"] != 3:
        return f"undeclared argument to {case['cat']}.{case['tag']} gives exit {obs['rc']} (expected 3): {obs['err']}"
    if not obs["unchanged"]:
        return "the tree changed although the template was rejected"
    return None


def streams(tier):
    return [
        Stream("shapes", gen_shapes, impl_shapes, model_lines, model_obs, oracle=oracle_shapes, compare=compare_shapes,
               nontrivial=lambda c, o: "error" not in o and (bool(o["sig"]["params"]) or o["sig"]["rc"] is not None),
               classify=classify_shapes, exhaustive=True, parallel=True, quick=1, thorough=1),
        Stream("cli_reject", gen_cli, impl_cli, oracle=oracle_cli, parallel=True, exhaustive=(tier == "thorough"),
               quick=1, thorough=1),
    ]
