#!/bin/sh
# ad-hoc lookup program: prints the planned destination / order index of the file it is given
exec /venv/bin/python -S -E "$(dirname "$0")/plan_impl.py" "$@"
