"""Regenerates lean/TemprenModel/Extracted.lean from /repo's *current* source.

Only Python's `ast` is used (nothing is executed).  When a shape is not recognised the
committed default is kept for that table and the status says so; this alone is never an
alarm (the correspondence check still covers the behaviour).
"""
from __future__ import annotations

import ast
import json
import os
from pathlib import Path

REPO = Path(os.environ.get("TEMPREN_REPO", "/repo"))
VERIF = Path(__file__).resolve().parent.parent
TARGET = VERIF / "lean" / "TemprenModel" / "Extracted.lean"

DEFAULTS = {
    "escaped_characters": ["'", "\\", "{", "}", "|"],
    "chunk_size": 4096,
    "error_codes": {
        "SUCCESS": 0,
        "INVALID_DESTINATION_ERROR": 1,
        "USAGE_ERROR": 2,
        "TEMPLATE_SYNTAX_ERROR": 3,
        "TEMPLATE_EVALUATION_ERROR": 4,
        "UNKNOWN_ERROR": 126,
    },
    # ordered `except` clauses of main(): (class name, ErrorCode member or "<status>")
    "handlers": [
        ["SystemExitError", "<status>"],
        ["ConfigurationError", "USAGE_ERROR"],
        ["TemplateEvaluationError", "TEMPLATE_EVALUATION_ERROR"],
        ["TemplateError", "TEMPLATE_SYNTAX_ERROR"],
        ["DestinationAlreadyExistsError", "INVALID_DESTINATION_ERROR"],
        ["InvalidDestinationError", "INVALID_DESTINATION_ERROR"],
        ["FileNotSupportedError", "INVALID_DESTINATION_ERROR"],
        ["Exception", "UNKNOWN_ERROR"],
    ],
    # prompt: option names in the order they are tested, each with what it returns
    "prompt_options": [["ignore", "ignore"], ["stop", "stop"], ["override", "override"], ["custom path", "custom"]],
    "prompt_empty_is": "ignore",
    "prompt_lowercases": True,
}


def _parse(rel):
    return ast.parse((REPO / rel).read_text())


def _const_strings(node):
    if isinstance(node, (ast.Tuple, ast.List)) and all(
        isinstance(e, ast.Constant) and isinstance(e.value, str) for e in node.elts
    ):
        return [e.value for e in node.elts]
    return None


def extract_escaped_characters():
    tree = _parse("tempren/template/parser.py")
    for node in tree.body:
        if isinstance(node, ast.Assign) and any(
            isinstance(t, ast.Name) and t.id == "escaped_characters" for t in node.targets
        ):
            vals = _const_strings(node.value)
            if vals is not None and all(len(v) == 1 for v in vals):
                return vals
    raise ValueError("escaped_characters")


def extract_chunk_size():
    tree = _parse("tempren/tags/hash.py")
    for node in tree.body:
        if isinstance(node, ast.Assign) and any(
            isinstance(t, ast.Name) and t.id == "CHUNK_SIZE" for t in node.targets
        ):
            v = ast.literal_eval(node.value)
            if isinstance(v, int):
                return v
    raise ValueError("CHUNK_SIZE")


def extract_error_codes():
    tree = _parse("tempren/cli.py")
    for node in tree.body:
        if isinstance(node, ast.ClassDef) and node.name == "ErrorCode":
            codes = {}
            for st in node.body:
                if isinstance(st, ast.Assign) and len(st.targets) == 1 and isinstance(st.targets[0], ast.Name):
                    v = ast.literal_eval(st.value)
                    if isinstance(v, int):
                        codes[st.targets[0].id] = v
            if codes:
                return codes
    raise ValueError("ErrorCode")


def extract_handlers():
    tree = _parse("tempren/cli.py")
    for node in tree.body:
        if isinstance(node, ast.FunctionDef) and node.name == "main":
            for st in node.body:
                if isinstance(st, ast.Try):
                    handlers = []
                    for h in st.handlers:
                        if not isinstance(h.type, ast.Name):
                            raise ValueError("handler type")
                        ret = None
                        for sub in ast.walk(h):
                            if isinstance(sub, ast.Return):
                                ret = sub.value
                        if isinstance(ret, ast.Attribute) and isinstance(ret.value, ast.Name):
                            if ret.value.id == "ErrorCode":
                                handlers.append([h.type.id, ret.attr])
                            elif ret.attr == "status":
                                handlers.append([h.type.id, "<status>"])
                            else:
                                raise ValueError("handler return")
                        else:
                            raise ValueError("handler return")
                    return handlers
    raise ValueError("main handlers")


def extract_prompt():
    """Order of the `"<option>".startswith(selected)` tests of the prompt."""
    tree = _parse("tempren/cli.py")
    for node in tree.body:
        if isinstance(node, ast.FunctionDef) and node.name == "cli_prompt_conflict_resolver":
            options = []
            empty_is = None
            lowercases = any(
                isinstance(n, ast.Attribute) and n.attr == "lower" for n in ast.walk(node)
            )
            for sub in ast.walk(node):
                if isinstance(sub, ast.If):
                    names = []
                    has_not = False
                    for t in ast.walk(sub.test):
                        if (isinstance(t, ast.Call) and isinstance(t.func, ast.Attribute)
                                and t.func.attr == "startswith"
                                and isinstance(t.func.value, ast.Constant)):
                            names.append(t.func.value.value)
                        if isinstance(t, ast.UnaryOp) and isinstance(t.op, ast.Not):
                            has_not = True
                    if len(names) != 1:
                        continue
                    result = None
                    for r in ast.walk(sub):
                        if isinstance(r, ast.Return):
                            if isinstance(r.value, ast.Attribute):
                                result = r.value.attr
                            elif isinstance(r.value, ast.Name):
                                result = "custom"
                    if result is None:
                        raise ValueError("prompt branch")
                    options.append([names[0], result])
                    if has_not:
                        empty_is = result
            if options:
                return options, empty_is, lowercases
    raise ValueError("prompt")


def g4_statements(rel):
    """The statements (`...;`) of an ANTLR grammar file, layout and comments removed: white space survives only
    inside quoted literals and character classes, and as one blank between two identifier characters."""
    text = (REPO / rel).read_text()
    out, cur = [], []
    i, n = 0, len(text)
    def ident(c):
        return c.isalnum() or c == "_"
    pending_space = False
    while i < n:
        c = text[i]
        if c == "'" or c == "[":
            close = "'" if c == "'" else "]"
            j = i + 1
            while j < n and text[j] != close:
                j += 2 if text[j] == "\\" else 1
            cur.append(text[i:j + 1])
            i = j + 1
            pending_space = False
            continue
        if text.startswith("//", i):
            while i < n and text[i] != "\n":
                i += 1
            continue
        if text.startswith("/*", i):
            j = text.find("*/", i + 2)
            i = n if j < 0 else j + 2
            continue
        if c.isspace():
            pending_space = True
            i += 1
            continue
        if c == ";":
            out.append("".join(cur))
            cur = []
            pending_space = False
            i += 1
            continue
        if pending_space and cur and ident(c) and ident(cur[-1][-1]):
            cur.append(" ")
        pending_space = False
        cur.append(c)
        i += 1
    if "".join(cur).strip():
        out.append("".join(cur))
    if not out:
        raise ValueError("no statements in " + rel)
    return out


def generated_tables(rel):
    """What the generated recogniser (the code that actually runs) contains: the serialised ATN and the name tables."""
    tree = _parse(rel)
    atn = None
    names = {}
    for node in ast.walk(tree):
        if isinstance(node, ast.FunctionDef) and node.name == "serializedATN":
            for sub in ast.walk(node):
                if isinstance(sub, ast.Return):
                    v = ast.literal_eval(sub.value)
                    if isinstance(v, list) and all(isinstance(x, int) for x in v):
                        atn = v
        if isinstance(node, ast.Assign) and len(node.targets) == 1 and isinstance(node.targets[0], ast.Name) \
                and node.targets[0].id in ("modeNames", "ruleNames", "symbolicNames", "literalNames"):
            try:
                v = ast.literal_eval(node.value)
            except Exception:
                continue
            if isinstance(v, list) and all(isinstance(x, str) for x in v):
                names[node.targets[0].id] = v
    if atn is None or "ruleNames" not in names:
        raise ValueError("generated recogniser " + rel)
    return {"atn": atn, "ruleNames": names["ruleNames"], "modeNames": names.get("modeNames", []),
            "symbolicNames": names.get("symbolicNames", [])}


def lean_string_lit(s):
    out = []
    for c in s:
        if c == "\\":
            out.append("\\\\")
        elif c == '"':
            out.append('\\"')
        elif 32 <= ord(c) < 127:
            out.append(c)
        else:
            out.append("\\u{%x}" % ord(c))
    return '"' + "".join(out) + '"'


def lean_string_list(xs, indent="  "):
    return "[\n" + ",\n".join(indent + lean_string_lit(x) for x in xs) + "\n]"


def lean_nat_list(xs, per_line=24):
    rows = [", ".join(str(x) for x in xs[i:i + per_line]) for i in range(0, len(xs), per_line)]
    return "[\n  " + ",\n  ".join(rows) + "\n]"


def lean_char(c):
    if 32 <= ord(c) < 127 and c not in "'\\\"":
        return f"'{c}'"
    return f"Char.ofNat {ord(c)}"


def lean_str(s):
    if s and all(32 <= ord(c) < 127 and c not in "'\\\"" for c in s):
        return f'"{s}".toList'
    return "[" + ", ".join(lean_char(c) for c in s) + "]"


def render(t):
    codes = t["error_codes"]
    lines = [
        "/-",
        "GENERATED by harness/extract.py from /repo's current source — do not edit.",
        "Tables: E1 escape table, E2 hash chunk size, E3 exit codes + `except` order of main(),",
        "E4 prompt options, E5 grammar statements, E6 generated lexer/parser automata.",
        "-/",
        "namespace Tempren",
        "namespace Extracted",
        "",
        "/-- E1: `escaped_characters` of tempren/template/parser.py (order matters) -/",
        "def escapedCharacters : List Char := [" + ", ".join(lean_char(c) for c in t["escaped_characters"]) + "]",
        "",
        "/-- E2: `CHUNK_SIZE` of tempren/tags/hash.py -/",
        f"def chunkSize : Nat := {t['chunk_size']}",
        "",
        "/-- E3: `ErrorCode` -/",
    ]
    for k, v in codes.items():
        lines.append(f"def code_{k} : Nat := {v}")
    lines.append("")
    lines.append("/-- E3: ordered `except` clauses of `main()`; `none` = the exception's own status -/")
    lines.append("def handlers : List (List Char × Option Nat) := [")
    rendered = []
    for cls, code in t["handlers"]:
        val = "none" if code == "<status>" else f"some {codes[code]}"
        rendered.append(f"  ({lean_str(cls)}, {val})")
    lines.append(",\n".join(rendered))
    lines.append("]")
    lines.append("")
    lines.append("/-- E4: prompt options in test order: (option text, result) -/")
    lines.append("def promptOptions : List (List Char × List Char) := [")
    lines.append(",\n".join(f"  ({lean_str(a)}, {lean_str(b)})" for a, b in t["prompt_options"]))
    lines.append("]")
    lines.append(f"def promptEmptyIs : List Char := {lean_str(t['prompt_empty_is'] or '')}")
    lines.append(f"def promptLowercases : Bool := {'true' if t['prompt_lowercases'] else 'false'}")
    lines.append("")
    lines.append("/-- E5: the statements of TagTemplateLexer.g4 / TagTemplateParser.g4 (layout and comments removed) -/")
    lines.append("def lexerGrammar : List String := " + lean_string_list(t["lexer_grammar"]))
    lines.append("def parserGrammar : List String := " + lean_string_list(t["parser_grammar"]))
    lines.append("")
    lines.append("/-- E6: the generated recognisers that actually run: serialised ATN and name tables -/")
    lines.append("def lexerATN : List Int := " + lean_nat_list(t["lexer_generated"]["atn"]))
    lines.append("def lexerRuleNames : List String := " + lean_string_list(t["lexer_generated"]["ruleNames"]))
    lines.append("def lexerModeNames : List String := " + lean_string_list(t["lexer_generated"]["modeNames"]))
    lines.append("def parserATN : List Int := " + lean_nat_list(t["parser_generated"]["atn"]))
    lines.append("def parserRuleNames : List String := " + lean_string_list(t["parser_generated"]["ruleNames"]))
    lines.append("")
    lines.append("end Extracted")
    lines.append("end Tempren")
    return "\n".join(lines) + "\n"


def run():
    tables = json.loads(json.dumps(DEFAULTS))
    status = {}
    for key, fn in (
        ("escaped_characters", extract_escaped_characters),
        ("chunk_size", extract_chunk_size),
        ("error_codes", extract_error_codes),
        ("handlers", extract_handlers),
    ):
        try:
            tables[key] = fn()
            status[key] = "extracted"
        except Exception as exc:
            status[key] = f"unrecognised-shape ({exc})"
    try:
        options, empty_is, lowercases = extract_prompt()
        tables["prompt_options"] = options
        tables["prompt_empty_is"] = empty_is
        tables["prompt_lowercases"] = lowercases
        status["prompt"] = "extracted"
    except Exception as exc:
        status["prompt"] = f"unrecognised-shape ({exc})"
    for key, fn in (
        ("lexer_grammar", lambda: g4_statements("tempren/template/grammar/TagTemplateLexer.g4")),
        ("parser_grammar", lambda: g4_statements("tempren/template/grammar/TagTemplateParser.g4")),
        ("lexer_generated", lambda: generated_tables("tempren/template/grammar/TagTemplateLexer.py")),
        ("parser_generated", lambda: generated_tables("tempren/template/grammar/TagTemplateParser.py")),
    ):
        try:
            tables[key] = fn()
            status[key] = "extracted"
        except Exception as exc:
            # nothing recognisable: an empty table, so that the pinned theorem (Props/C10Grammar.lean) does not hold
            tables[key] = [] if key.endswith("grammar") else {"atn": [], "ruleNames": [], "modeNames": [], "symbolicNames": []}
            status[key] = f"unrecognised-shape ({exc})"
    # handlers may name codes that are not in error_codes
    for cls, code in tables["handlers"]:
        if code != "<status>" and code not in tables["error_codes"]:
            tables["handlers"] = DEFAULTS["handlers"]
            tables["error_codes"] = DEFAULTS["error_codes"]
            status["handlers"] = "unrecognised-shape (unknown code)"
            break
    text = render(tables)
    changed = not TARGET.exists() or TARGET.read_text() != text
    if changed:
        TARGET.write_text(text)
    status["rewritten"] = changed
    status["tables"] = tables
    return status


if __name__ == "__main__":
    print(json.dumps(run(), indent=1))
