#!/bin/sh
# Probe program for C20: records what it was given, then behaves as configured.
#   $PROBE_OUT.<pid>.argv   arguments, each followed by NUL
#   $PROBE_OUT.<pid>.cwd    physical working directory
#   $PROBE_OUT.<pid>.stdin  everything readable from standard input
base="$PROBE_OUT.$$"
if [ "$#" -gt 0 ]; then printf '%s\0' "$@" > "$base.argv"; else : > "$base.argv"; fi
pwd -P > "$base.cwd"
cat > "$base.stdin"
printf '%s' "$PROBE_STDOUT"
printf '%s' "$PROBE_STDERR" >&2
exit "${PROBE_EXIT:-0}"
