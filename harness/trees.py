"""Generated template trees, their Python printer (same style semantics as Printer.lean),
their canonical form and their transport encoding for the model driver."""
from __future__ import annotations

from .common import enc_str, enc_opt
from .tmpl import esc_text

IDENTS = ["Name", "Upper", "Lower", "Trim", "T", "a1", "_x", "Count", "Zz_9"]
KWNAMES = ["left", "right", "width", "x", "flag", "ignore_case", "truex", "True_", "_",
           # identifiers that merely look like the boolean words (only `true/True/false/False` are values)
           "TRUE", "FALSE", "tRue", "fALSE", "TrUe", "falsE", "Truee", "fals"]
CATS = [None, None, "Core", "text", "C_1"]
TEXT_POOL = list("abc XYZ09.,-_()=;:!?'\"\\{}|éЖ中 ") + [
    # text that is not in a Unicode normal form must arrive as written: combining marks after a base letter, characters
    # with a singleton canonical decomposition (ANGSTROM SIGN, OHM SIGN), compatibility forms (ligature, full-width), a
    # decomposed Hangul syllable
    "\u0301", "e\u0301", "\u212b", "\u2126", "\ufb01", "\uff21", "\u1100\u1161", "\u00e9"]


def gen_text(rng, maxlen=6):
    if rng.random() < 0.08:
        return rng.choice([" ", "  ", " \u00a0", "\u3000"])      # text that is nothing but blank(s)
    while True:
        s = "".join(rng.choice(TEXT_POOL) for _ in range(rng.randint(1, maxlen)))
        if not s.endswith("\\"):
            return s


def gen_string(rng, maxlen=6):
    pool = TEXT_POOL + ["%", "\t", "\n", ")", "(", ","]
    while True:
        s = "".join(rng.choice(pool) for _ in range(rng.randint(0, maxlen)))
        if not s.endswith("\\"):
            return s


def gen_val(rng):
    r = rng.random()
    if r < 0.3:
        return rng.choice([0, 1, -1, 42, -7, 10 ** 30, -(10 ** 50), int("9" * rng.randint(1, 60))])
    if r < 0.5:
        return rng.random() < 0.5
    return gen_string(rng)


def gen_tag(rng, depth, ctx=None):
    args = [gen_val(rng) for _ in range(rng.choice([0, 0, 1, 2, 3]))]
    names = rng.sample(KWNAMES, rng.choice([0, 0, 1, 2]))
    kwargs = [[k, gen_val(rng)] for k in names]
    if ctx is None and depth > 0 and rng.random() < 0.5:
        ctx = gen_pat(rng, depth - 1)
    return {"cat": rng.choice(CATS), "name": rng.choice(IDENTS), "args": args, "kwargs": kwargs, "ctx": ctx}


def gen_pat(rng, depth, maxlen=3):
    elems = []
    for _ in range(rng.randint(0, maxlen)):
        if elems and isinstance(elems[-1], str) or rng.random() < 0.55:
            if elems and isinstance(elems[-1], str):
                elems.append(gen_tag(rng, depth))
            else:
                elems.append(gen_text(rng))
        else:
            elems.append(gen_tag(rng, depth))
    return elems


# ------------------------------------------------------------------ printer (mirror of Printer.lean)
def quote_for(style, s):
    q = style[0]
    if q == "s":
        return "'"
    if q == "d":
        return '"'
    return "'" if len(s) % 2 == 0 else '"'


def print_val(style, v):
    if isinstance(v, bool):
        word = "true" if v else "false"
        return word if style[1] == "l" else word.capitalize()
    if isinstance(v, int):
        return str(v)
    q = quote_for(style, v)
    return q + v.replace("\\", "\\\\").replace(q, "\\" + q) + q


def print_tag(style, t, with_ctx=True):
    parts = [print_val(style, a) for a in t["args"]]
    for k, v in t["kwargs"]:
        if style[2] == "T" and v is True:
            parts.append(k)
        else:
            parts.append(k + "=" + print_val(style, v))
    out = "%" + (t["cat"] + "." if t["cat"] else "") + t["name"] + "(" + (", " if style[3] == "T" else ",").join(parts) + ")"
    if with_ctx and t["ctx"] is not None:
        out += "{" + print_pat(style, t["ctx"]) + "}"
    return out


def print_pat(style, p):
    return "".join(esc_text(e) if isinstance(e, str) else print_tag(style, e) for e in p)


def print_piped(style, x, tags):
    return print_pat(style, x) + "".join("|" + print_tag(style, t, with_ctx=False) for t in tags)


def nest(x, tags):
    for t in tags:
        x = [{**t, "ctx": x}]
    return x


# ------------------------------------------------------------------ canonical form (as the driver / tparse print it)
def canon_val(v):
    if isinstance(v, bool):
        return "bT" if v else "bF"
    if isinstance(v, int):
        return "i" + str(v)
    return enc_str(v)


def canon_pat(p):
    out = []
    for e in p:
        if isinstance(e, str):
            out.append("R(" + enc_str(e) + ")")
        else:
            kws = sorted(e["kwargs"], key=lambda kv: [ord(c) for c in kv[0]])
            out.append("T(" + enc_opt(e["cat"]) + "," + enc_str(e["name"]) + ",(" + ",".join(canon_val(a) for a in e["args"])
                       + "),(" + ",".join(enc_str(k) + "=" + canon_val(v) for k, v in kws) + "),"
                       + ("-" if e["ctx"] is None else canon_pat(e["ctx"])) + ")")
    return "[" + "".join(out) + "]"


# ------------------------------------------------------------------ transport
def enc_tree(p):
    fields = []

    def pat(p):
        fields.append("P%d" % len(p))
        for e in p:
            if isinstance(e, str):
                fields.append("R" + enc_str(e))
            else:
                fields.append("T" + ("T" if e["ctx"] is not None else "F"))
                fields.append(enc_opt(e["cat"]))
                fields.append(enc_str(e["name"]))
                fields.append("A%d" % len(e["args"]))
                fields.extend(canon_val(a) for a in e["args"])
                fields.append("K%d" % len(e["kwargs"]))
                for k, v in e["kwargs"]:
                    fields.append(enc_str(k))
                    fields.append(canon_val(v))
                if e["ctx"] is not None:
                    pat(e["ctx"])
    pat(p)
    return ";".join(fields)


STYLES = [q + b + s + sp for q in "sdm" for b in "lu" for s in "TF" for sp in "TF"]
