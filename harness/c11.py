"""C11 — Pipe lists are exactly nested contexts."""
from __future__ import annotations

from pathlib import Path

from . import common
from .common import Stream, enc_str, dec_str
from .tparse import real_parse
from . import trees
from .c17 import registry

PROPERTY = "C11"
RULE = ("pairs (X, 1–5 piped tags with argument lists): X a generated template tree (text, tags, nested contexts, contexts "
        "whose own content is written as a pipe list), printed as `X|%A(..)|%B(..)` and as `%B(..){%A(..){X}}` in one of 24 "
        "styles, at top level and inside a context of a host tag; both parsed by the real parser (equal trees) and, for "
        "the built-in text tags, compiled and rendered for the files of a generated tree (equal names); non-tags after a "
        "pipe must be rejected; non-trivial = X is non-empty; distinct by (X, tags, style, position)")
ASSUMPTIONS = ["a piped tag written with its own context has that context discarded by the visitor (observed, mirrored by the model)"]
TRUSTED = ["models Template.lean / Printer.lean hand-written; tied to the real parser by stream pipe_pairs"]


def gen_pairs(rng, n, tier):
    for _ in range(n):
        x = trees.gen_pat(rng, rng.randint(0, 3))
        # (mostly 1–5 piped tags; now and then a long list — what a pipe list means does not depend on its length)
        tags = [trees.gen_tag(rng, 0, ctx=None) for _ in range(rng.randint(1, 5) if rng.random() < 0.92 else rng.randint(8, 13))]
        for t in tags:
            t["ctx"] = None
        if rng.random() < 0.3:
            # white space the lexer skips (TAB, LF, CR) in the middle of raw text of X: the text is then lexed as
            # several pieces, and both spellings must still mean the same
            texts = [i for i, e in enumerate(x) if isinstance(e, str) and len(e) >= 2]
            for i in texts[: rng.randint(1, 2)]:
                cut = rng.randint(1, len(x[i]) - 1)
                if x[i][cut - 1] != "\\":
                    x[i] = x[i][:cut] + rng.choice(["\t", "\n", "\r", "\t\n"]) + x[i][cut:]
        yield {"x": x, "tags": tags, "style": rng.choice(trees.STYLES), "inside": rng.random() < 0.4}


def _texts(case):
    piped = trees.print_piped(case["style"], case["x"], case["tags"])
    nested = trees.print_pat(case["style"], trees.nest(case["x"], case["tags"]))
    if case["inside"]:
        piped, nested = "pre%Host(1){" + piped + "}post", "pre%Host(1){" + nested + "}post"
    return piped, nested


def impl_pairs(case):
    piped, nested = _texts(case)
    return {"piped": real_parse(piped)[0], "nested": real_parse(nested)[0], "text": piped}


def lines_pairs(case):
    piped, nested = _texts(case)
    return ["parse " + enc_str(piped), "parse " + enc_str(nested),
            f"piped {case['style']} {trees.enc_tree(case['x'])} {trees.enc_tree(case['tags'])}"]


def obs_pairs(case, answers):
    fields = answers[2].split(" ")
    return {"piped": answers[0], "nested": answers[1], "model_printer_agrees":
            (case["inside"] or (dec_str(fields[0]), dec_str(fields[1])) == _texts(case)) and fields[2] == fields[3]}


def compare_pairs(case, obs, pred):
    return obs["piped"] == pred["piped"] and obs["nested"] == pred["nested"] and pred["model_printer_agrees"]


def oracle_pairs(case, obs):
    if obs["piped"] == "rej" or obs["nested"] == "rej" or obs["piped"].startswith("crash"):
        return f"pipe list {obs['text']!r} or its nested spelling is rejected ({obs['piped'][:20]}, {obs['nested'][:20]})"
    if obs["piped"] != obs["nested"]:
        return f"{obs['text']!r} parses differently from its nested spelling"
    return None


# ------------------------------------------------------------------ rendering with the built-in text tags
TEXT_TAGS = [("Upper", []), ("Lower", []), ("Capitalize", []), ("Title", []), ("Strip", []), ("Trim", [3, "left"]),
             ("Trim", [-1, "right"]), ("Pad", [9, "_", "left"]), ("Collapse", []), ("SplitCase", ["-"]), ("Unidecode", []),
             ("Remove", ["a", "e"]), ("Replace", ["o", "0"])]
X_SOURCES = ["%Name()", "%Base()", "pre %Base() post%Ext()", "%Dir()", "x", "%Upper(){%Base()}.%Lower(){%Ext()}",
             "%Base()|%Upper()", "%Text.Trim(2,left){%Base()|%Upper()}%Ext()", ""]


def _tag_text(name, args):
    parts = []
    for a in args:
        parts.append(a if a in ("left", "right") else (str(a) if isinstance(a, int) else '"' + a + '"'))
    return "%Text." + name + "(" + ", ".join(parts) + ")"


def gen_render(rng, n, tier):
    for _ in range(n):
        tags = [rng.choice(TEXT_TAGS) for _ in range(rng.randint(1, 5))]
        files = ["/".join(rng.choice(["a", "Sub Dir", "fooBar.TXT", "x  y.tar.gz", "émile", ".hid"]) for _ in range(rng.randint(1, 2)))
                 for _ in range(3)]
        yield {"x": rng.choice(X_SOURCES), "tags": [[t, list(a)] for t, a in tags], "files": files, "inside": rng.random() < 0.3}


def impl_render(case):
    from tempren.primitives import File
    from tempren.template.compiler import TemplateCompiler
    piped = case["x"] + "".join("|" + _tag_text(t, a) for t, a in case["tags"])
    nested = case["x"]
    for t, a in case["tags"]:
        nested = _tag_text(t, a) + "{" + nested + "}"
    if case["inside"]:
        piped, nested = "A%Text.Lower(){" + piped + "}Z", "A%Text.Lower(){" + nested + "}Z"
    comp = TemplateCompiler(registry())
    try:
        p1, p2 = comp.compile(piped), comp.compile(nested)
    except Exception as exc:
        return {"error": f"{type(exc).__name__}: {exc}"[:200], "piped": piped}
    out = []
    for f in case["files"]:
        file = File(Path("/in"), Path(f))
        out.append([p1.process(file), p2.process(file)])
    return {"pairs": out, "piped": piped}


def oracle_render(case, obs):
    if "error" in obs:
        return f"{obs['piped']!r} does not compile: {obs['error']}"
    for a, b in obs["pairs"]:
        if a != b:
            return f"{obs['piped']!r} renders {a!r}, the nested spelling renders {b!r}"
    return None


# ------------------------------------------------------------------ non-tags after a pipe
def gen_nontag(rng, n, tier):
    for _ in range(n):
        x = trees.print_pat("dlFT", trees.gen_pat(rng, 2))
        tail = rng.choice(["|y", "|", "||%A()", "|%A()|y", "|{", "|}", "|%A()|", "|\\|", "| %A()", "|y|%A()", "|%", "|%A"])
        yield {"t": x + tail}


def impl_nontag(case):
    return {"ast": real_parse(case["t"])[0]}


def lines_nontag(case):
    return ["parse " + enc_str(case["t"])]


def obs_nontag(case, answers):
    return {"ast": answers[0]}


def oracle_nontag(case, obs):
    if obs["ast"] != "rej":
        return f"{case['t']!r} (a non-tag after a pipe) is not rejected: {obs['ast'][:80]}"
    return None


def streams(tier):
    return [
        Stream("pipe_pairs", gen_pairs, impl_pairs, lines_pairs, obs_pairs, oracle=oracle_pairs, compare=compare_pairs,
               nontrivial=lambda c, o: bool(c["x"]), parallel=True, quick=20000, thorough=200000,
               classify=lambda c, o: ["pipes:%d" % len(c["tags"]), "inside" if c["inside"] else "top"]),
        Stream("pipe_render", gen_render, impl_render, oracle=oracle_render, parallel=True, quick=6000, thorough=60000,
               classify=lambda c, o: ["pipes:%d" % len(c["tags"])]),
        Stream("nontag", gen_nontag, impl_nontag, lines_nontag, obs_nontag, oracle=oracle_nontag, parallel=True,
               quick=5000, thorough=50000),
    ]
