"""C16 — Count yields a gap-free arithmetic sequence per directory (or globally)."""
from __future__ import annotations

import os
import re
from pathlib import Path, PurePosixPath

from . import common, gen
from .common import Stream, enc_bool, enc_list, dec_list, dec_str
from .c17 import registry, _spec_from_json

PROPERTY = "C16"
RULE = ("tag level: random (start, step, width, common) incl. large values, negative steps down to the rejected "
        "range, widths shorter than the number, random interleavings of files from several directories and input "
        "roots (incl. roots nested in one another so that different (root, relative dir) pairs alias one directory); "
        "CLI level: generated trees renamed with templates containing one or several Count tags; non-trivial = "
        "at least two calls for one counter; distinct by the full case")
ASSUMPTIONS = [
    "str(int)/zfill of CPython are the reference for decimal rendering (compared with the model each run)",
    "the directory of a file is its absolute parent path (computed by the harness independently of tempren)",
]
TRUSTED = ["model M8 Count.lean is hand-written; tied to the real CountTag by stream count_tag"]

ROOTS = ["/r1", "/r2", "/r1/s"]
RELS = ["a", "b", "s/a", "s/b", "s/t/c", "t/a"]


def gen_count(rng, n, tier):
    for _ in range(n):
        r = rng.random()
        if r < 0.7:
            start = rng.choice([0, 1, 2, 5, 10, 99, 100, 10**6, 10**20])
        else:
            start = rng.randint(-2, 12)
        step = rng.choice([1, 1, 2, 3, 10, -1, -2, -5, 0, 10**18, -(10**19)])
        width = rng.choice([0, 0, 1, 2, 3, 5, 25, -1])
        common = rng.random() < 0.3
        k = rng.randint(1, 14)
        files = [[rng.choice(ROOTS), rng.choice(RELS)] for _ in range(k)]
        if rng.random() < 0.03:
            # very many directories visited in an interleaved order (a bounded memo of per-directory counters would forget some)
            ndirs = rng.choice([100, 129, 150, 300])
            rounds = rng.randint(2, 3)
            files = [["/r", "d%03d/f%d" % (d, j)] for j in range(rounds) for d in range(ndirs)]
            if rng.random() < 0.5:
                files = files + [["/r", "d000/again"], ["/r", "d001/again"]]
        yield {"start": start, "step": step, "width": width, "common": common, "files": files}


def dir_key(root, rel):
    return os.path.normpath(str(PurePosixPath(root) / PurePosixPath(rel).parent))


def impl_count(case):
    from tempren.primitives import File, QualifiedTagName
    factory = registry().get_tag_factory(QualifiedTagName("Count"))
    try:
        tag = factory(case["start"], case["step"], case["width"], case["common"])
    except ValueError:
        return "CFGERR"
    out = []
    for root, rel in case["files"]:
        try:
            v = tag.process(File(Path(root), Path(rel)), None)
            out.append(["int", v] if isinstance(v, int) and not isinstance(v, bool) else ["str", v])
        except ValueError:
            out.append(["E"])
    return out


def lines_count(case):
    keys = {}
    dirs = []
    for root, rel in case["files"]:
        k = dir_key(root, rel)
        dirs.append("d%d" % keys.setdefault(k, len(keys)))
    return ["count %d %d %d %s %s" % (case["start"], case["step"], case["width"], enc_bool(case["common"]), enc_list(dirs))]


def obs_count(case, answers):
    a = answers[0]
    if a == "CFGERR":
        return a
    out = []
    for item in dec_list(a):
        if item == "E":
            out.append(["E"])
        elif item.startswith("i"):
            out.append(["int", int(item[1:])])
        else:
            out.append(["str", dec_str(item)])
    return out


def oracle_count(case, obs):
    start, step, width = case["start"], case["step"], case["width"]
    invalid = start < 0 or step == 0 or width < 0
    if obs == "CFGERR":
        return None if invalid else "valid parameters rejected"
    if invalid:
        return f"invalid parameters accepted: start={start} step={step} width={width}"
    counters = {}
    for (root, rel), item in zip(case["files"], obs):
        key = "*" if case["common"] else dir_key(root, rel)
        expected = counters.get(key, start)
        counters[key] = expected + step
        if expected < 0:
            if item != ["E"]:
                return f"negative value {expected} not rejected: {item}"
            continue
        if item == ["E"]:
            return f"value {expected} rejected"
        kind, v = item
        if width == 0:
            if kind != "int" or v != expected:
                return f"expected int {expected}, got {item}"
        else:
            if kind != "str" or not re.fullmatch(r"[0-9]+", v) or int(v) != expected or len(v) < width \
                    or len(v) != max(width, len(str(expected))):
                return f"expected {expected} zero-filled to {width}, got {item}"
    return None


def nontrivial_count(case, obs):
    if obs == "CFGERR":
        return False
    keys = ["*" if case["common"] else dir_key(r, p) for r, p in case["files"]]
    return len(keys) > len(set(keys))


def classify_count(case, obs):
    out = ["common" if case["common"] else "per-dir", "width:" + ("0" if case["width"] == 0 else "neg" if case["width"] < 0 else "pos"),
           "step:" + ("neg" if case["step"] < 0 else "zero" if case["step"] == 0 else "pos")]
    if obs == "CFGERR":
        out.append("cfgerr")
    elif any(i == ["E"] for i in obs):
        out.append("runs-negative")
    return out


# ------------------------------------------------------------------ CLI level
CLI_TEMPLATES = [
    ("%Count({a})-%Name()", 1),
    ("%Count({a})-%Count({a})-%Name()", 2),
    ("%Pad(1, left){{%Count({a})}}-%Name()", 1),
    ("%C()-%Name()", 1),           # through an alias  C=%Count(args)
    ("%C()-%C()-%Name()", 2),      # the alias twice: two counters, like the tag written twice
    ("%Count()-%Count()-%Name()", 2),   # the tag twice without arguments (its defaults): still two counters
    ("x|%Default(%Count({a}))|%Upper()|%Remove('X') -%Name()", None),
]


def gen_count_cli(rng, n, tier):
    for _ in range(n):
        roots = ["in"] if rng.random() < 0.5 else ["in", "in2"]
        spec = gen.gen_tree(rng, roots=roots, links=False, hidden=False, max_entries=7,
                            names=["a", "b", "c", "d", "e", "f", "g"])
        # entries that are symbolic links to files kept in *another* directory: an entry is numbered with the
        # directory it is listed in, wherever its content lives
        if rng.random() < 0.25:
            files = [p for p, v in spec.items() if isinstance(v, str)]
            dirs = [p for p, v in spec.items() if v is None]
            for k in range(rng.randint(1, 3)):
                if not files:
                    break
                target, d = rng.choice(files), rng.choice(dirs)
                if os.path.dirname(target) != d and d + "/l%d" % k not in spec:
                    spec[d + "/l%d" % k] = ["link", os.path.relpath(target, d)]
        start = rng.choice([0, 1, 7, 98, 10 ** 15 - 2, 10 ** 16, 10 ** 20 + 7, 2 ** 63 - 1])
        step = rng.choice([1, 2, 10])
        width = rng.choice([0, 0, 2, 4])
        common = rng.random() < 0.3
        tmpl_i = rng.randrange(6)
        yield {"spec": spec, "roots": roots, "start": start, "step": step, "width": width, "common": common,
               "template": tmpl_i, "recursive": rng.random() < 0.7, "invert": rng.random() < 0.3,
               "verbose": rng.random() < 0.3}


def impl_count_cli(case):
    a = f"{case['start']}, {case['step']}, {case['width']}" + (", common" if case["common"] else "")
    tmpl, _ = CLI_TEMPLATES[case["template"]]
    args = []
    if "%C()" in tmpl:
        args += ["-a", f"C=%Count({a})"]
    tmpl = tmpl.format(a=a)
    with common.Sandbox(_spec_from_json(case["spec"])) as root:
        before = common.snapshot(root)
        args += [tmpl] + [str(root / r) for r in case["roots"]] + ["-s", "%Name()"]
        if case["recursive"]:
            args.append("-r")
        if case["invert"]:
            args.append("-si")
        if case.get("verbose"):
            args.append("-v")      # what is logged must not change what is done
        out, err, rc = common.run_cli(args)
        after = common.snapshot(root)
        files_before = sorted(k for k, v in before.items() if v is not None)
        files_after = sorted(k for k, v in after.items() if v is not None)
        return {"rc": rc, "before": files_before, "after": files_after, "events": common.parse_events(out),
                "err": err.strip()[-200:] if rc else ""}


def oracle_count_cli(case, obs):
    if obs["rc"] != 0:
        return f"exit {obs['rc']}: {obs['err']}"
    start, step, width = case["start"], case["step"], case["width"]
    per_dir_only = False
    if "{a}" not in CLI_TEMPLATES[case["template"]][0] and "%C()" not in CLI_TEMPLATES[case["template"]][0]:
        start, step, width, per_dir_only = 0, 1, 0, True      # the tag's documented defaults
    ncount = CLI_TEMPLATES[case["template"]][1]
    # which files were considered: those that changed name
    renamed = [f for f in obs["after"] if f not in obs["before"]]
    groups = {}
    for f in renamed:
        d, name = (f.rsplit("/", 1) + [""])[:2] if "/" in f else ("", f)
        parts = name.split("-")
        nums = parts[:ncount]
        if not all(re.fullmatch(r"[0-9]+", x) for x in nums):
            return f"unexpected generated name {name!r}"
        if any(len(x) < width for x in nums):
            return f"number shorter than width in {name!r}"
        if width == 0 and any(len(x) > 1 and x[0] == "0" for x in nums):
            return f"leading zero without width in {name!r}"
        if len(set(nums)) != 1:
            return f"two Count tags of one template disagree in {name!r}"
        groups.setdefault("*" if case["common"] and not per_dir_only else d, []).append(int(nums[0]))
    if len(renamed) != len(obs["events"]):
        return "number of renamed files differs from the number of reported renames"
    for d, values in groups.items():
        expected = [start + k * step for k in range(len(values))]
        if sorted(values) != expected:
            return f"directory {d!r}: numbers {sorted(values)} are not {expected}"
    return None


def streams(tier):
    return [
        Stream("count_tag", gen_count, impl_count, lines_count, obs_count, oracle=oracle_count,
               nontrivial=nontrivial_count, classify=classify_count, quick=20000, thorough=200000),
        Stream("count_cli", gen_count_cli, impl_count_cli, oracle=oracle_count_cli, parallel=True,
               nontrivial=lambda c, o: len(o["events"]) >= 2,
               classify=lambda c, o: ["tmpl:%d" % c["template"], "common" if c["common"] else "per-dir",
                                      "renamed:%d" % min(len(o["events"]), 6)],
               quick=500, thorough=5000),
    ]
