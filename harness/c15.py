"""C15 — An alias is indistinguishable from its pattern written in place."""
from __future__ import annotations

import os
from pathlib import Path

from . import common
from .common import Stream, enc_str, enc_list, dec_list, dec_str

PROPERTY = "C15"
RULE = ("alias sets of 1–4 aliases over a vocabulary of built-in tags (Count with arguments, Name, Base, Ext, Upper, Lower, "
        "text; nested contexts, pipe lists), with references between aliases (chains, diamonds, self-reference and longer "
        "cycles), names shadowing built-in tags; host templates using each alias several times, inside contexts and as the "
        "head of pipe lists; rendered for a sequence of 4–7 files from several directories (so that per-directory counters "
        "matter) by the real compiler with the alias and with the alias's pattern written in place, and by the model; in "
        "filter/sort position the alias must contribute one string; arguments/contexts on an alias and invalid or cyclic "
        "aliases must be template errors before any file is touched; non-trivial = the alias contains a counter or is used "
        "twice; distinct by the full case")
ASSUMPTIONS = ["Upper/Lower are modelled on ASCII (generated names are ASCII)",
               "textual in-place writing of an alias is done by the harness on the host template text"]
TRUSTED = ["model Render.lean (renderer, alias as a tag rendering its own pattern, mini binder) hand-written; tied by stream alias_render"]

PATTERNS = ["%Count()", "%Count(1)", "%Count(start=5, step=5)", "%Count(1, 1, 3)", "%Count(width=2, common=True)", "%Name()",
            "%Base()", "x%Ext()", "%Upper(){%Base()}", "%Lower(){%Base()|%Upper()}", "%Lower(){%Name()}-%Count(10)", "lit", "%Upper(){a%Count()b}",
            "%Count()%Count()", "%Upper(){%Base()|%Lower()}",
            # patterns are text: leading/trailing/inner blanks belong to them
            " - ", "  %Base()", "%Base()  ", " ", "a  b", " %Count() "]
FILES = ["a.txt", "b.txt", "Sub/c.TXT", "Sub/d", "Sub/Deep/e.md", "f", "Other/g.x"]


def gen_alias(rng, n, tier):
    for _ in range(n):
        k = rng.randint(1, 4)
        names = rng.sample(["N", "M", "Q", "Num", "Nm", "Up", "X1"], k)
        aliases = []
        for i, nme in enumerate(names):
            r = rng.random()
            if r < 0.6 or i == 0:
                pat = rng.choice(PATTERNS)
            elif r < 0.85:
                pat = rng.choice(["%" + names[rng.randrange(i)] + "()", "<%" + names[rng.randrange(i)] + "()>", "%Upper(){%" + names[rng.randrange(i)] + "()}",
                                  "%" + names[rng.randrange(i)] + "()%" + names[rng.randrange(i)] + "()"])
            else:
                pat = rng.choice(["%" + nme + "()", "%" + names[(i + 1) % k] + "()x", "%Upper{", "%NoSuch()", "%Count(step=0)"])
            aliases.append([nme, pat])
        # shadowing a built-in name makes the bare name ambiguous: use the qualified Alias.X spelling in hosts
        use = rng.choice(names)
        ref = "%Alias." + use + "()"
        host = rng.choice(["{r}", "{r}-{r}", "a{r}b%Name()", "%Upper(){{x{r}y}}", "{r}|%Upper()", "%Lower(){{{r}}}_{r}", "{r}%Count(100)", "%Base()_{r}%Ext()"]).format(r=ref)
        misuse = rng.choice([None, None, None, "%Alias." + use + "(1)", "%Alias." + use + "(){x}", "%Alias." + use + "(a=1)",
                             "%Alias." + use + "(0)", "%Alias." + use + "('')", "%Alias." + use + "(false)", "%Alias." + use + "(0, '')",
                             "%Alias." + use + "(){}", "%Alias." + use + "(a=0)", "%Alias." + use + "(flag)"])
        files = [rng.choice(FILES) for _ in range(rng.randint(4, 7))]
        yield {"aliases": aliases, "host": host, "use": use, "misuse": misuse, "files": files}


def inline_text(aliases, text, depth=0):
    """write each alias's pattern in place of %Alias.N() (None when the set is cyclic or too deep)"""
    if depth > 12:
        return None
    out = text
    for nme, pat in aliases:
        ref = "%Alias." + nme + "()"
        while ref in out:
            inner = pat
            for n2, _ in aliases:
                inner = inner.replace("%" + n2 + "()", "%Alias." + n2 + "()")
            expanded = inline_text(aliases, inner, depth + 1)
            if expanded is None:
                return None
            out = out.replace(ref, expanded, 1)
    return out


def _render(registry, text, files, as_expression=False):
    from tempren.primitives import File
    from tempren.template.compiler import TemplateCompiler
    from tempren.template.exceptions import TemplateError
    import contextlib, io
    try:
        with contextlib.redirect_stderr(io.StringIO()):
            pattern = TemplateCompiler(registry).compile(text)
    except TemplateError as exc:
        return ["template-error", type(exc).__name__]
    except RecursionError:
        return ["crash", "RecursionError"]
    out = []
    for f in files:
        try:
            file = File(Path("/in"), Path(f))
            out.append(pattern.process_as_expression(file) if as_expression else pattern.process(file))
        except Exception as exc:
            out.append("E:" + type(exc).__name__)
            break
    return ["ok", out]


def impl_alias(case):
    from tempren.cli import alias as parse_alias, validate_aliases
    from tempren.pipeline import build_tag_registry
    # inside alias patterns the user refers to other aliases by their bare names
    al = validate_aliases([[parse_alias(f"{n}={p}")] for n, p in case["aliases"]])
    reg_alias = build_tag_registry({}, al)
    reg_plain = build_tag_registry({}, {})
    with_alias = _render(reg_alias, case["host"], case["files"])
    bare_aliases = [[n, p] for n, p in case["aliases"]]
    inlined_text = inline_text(bare_aliases, case["host"])
    inlined = _render(reg_plain, inlined_text, case["files"]) if inlined_text is not None else ["cyclic"]
    expr = _render(reg_alias, "%Alias." + case["use"] + "()", case["files"][:2], as_expression=True)
    single = _render(reg_alias, "%Alias." + case["use"] + "()", case["files"][:2])
    misuse = _render(reg_alias, case["misuse"], case["files"][:1]) if case["misuse"] else None
    return {"with_alias": with_alias, "inlined": inlined, "inlined_text": inlined_text, "expr": expr, "single": single, "misuse": misuse}


def model_aliases(case):
    """alias patterns as the model's binder sees them: bare names, host written with bare names too"""
    return enc_list([enc_str(n) + ":" + enc_str(p) for n, p in case["aliases"]])


def shadows_builtin(case):
    return any(n in ("Name", "Upper", "Count", "Base", "Ext", "Lower") for n, _ in case["aliases"])


def lines_alias(case):
    if shadows_builtin(case):
        return []      # the model's mini binder has no categories: ambiguity of shadowed names is C12's subject
    host = case["host"].replace("%Alias.", "%")
    files = enc_list([enc_str("in") + ":" + enc_str(f) for f in case["files"]])
    return [f"renderseq {model_aliases(case)} {enc_str(host)} {files}"]


def obs_alias(case, answers):
    a = answers[0]
    if a == "template-error":
        return {"with_alias": ["template-error"]}
    out = []
    for x in dec_list(a):
        if x == "E":
            out.append("E")
            break
        out.append(dec_str(x))
    return {"with_alias": ["ok", out]}


def compare_alias(case, obs, pred):
    real = obs["with_alias"]
    if real[0] in ("template-error", "crash"):
        return pred["with_alias"][0] == "template-error"
    if pred["with_alias"][0] != "ok":
        return False
    r = [x if not x.startswith("E:") else "E" for x in real[1]]
    return r == pred["with_alias"][1]


def oracle_alias(case, obs):
    wa, inl = obs["with_alias"], obs["inlined"]
    if wa[0] == "crash":
        return f"compiling {case['host']!r} with aliases {case['aliases']} crashes ({wa[1]}) instead of a template error"
    if inl == ["cyclic"]:
        if wa[0] != "template-error":
            return f"cyclic alias set {case['aliases']} accepted"
        return None
    if wa[0] != inl[0]:
        return (f"host {case['host']!r} with aliases {case['aliases']}: {wa[:2]} but with the patterns written in place "
                f"({obs['inlined_text']!r}): {inl[:2]}")
    if wa[0] == "ok" and wa[1] != inl[1]:
        return (f"host {case['host']!r} with aliases {case['aliases']} renders {wa[1]}, with the patterns written in place "
                f"({obs['inlined_text']!r}) it renders {inl[1]}")
    if wa[0] == "ok" and obs["expr"][0] == "ok" and obs["single"][0] == "ok":
        for e, s in zip(obs["expr"][1], obs["single"][1]):
            if e.startswith("E:") or s.startswith("E:"):
                continue
            try:
                v = eval(e, {}, {})
            except Exception as exc:
                return f"alias in an expression renders {e!r}, which does not evaluate: {exc!r}"
            if not isinstance(v, str):
                return f"alias in an expression contributes {v!r} ({type(v).__name__}), not one string"
    if obs["misuse"] is not None and wa[0] == "ok" and obs["misuse"][0] != "template-error":
        return f"alias used with arguments or a context was accepted: {case['misuse']!r} -> {obs['misuse'][:1]}"
    return None


def classify_alias(case, obs):
    return ["result:" + obs["with_alias"][0], "aliases:%d" % len(case["aliases"]), "cyclic" if obs["inlined"] == ["cyclic"] else "acyclic",
            "counter" if any("Count" in p for _, p in case["aliases"]) else "stateless"]


# ------------------------------------------------------------------ CLI: bad aliases are reported before any file is touched
def gen_cli(rng, n, tier):
    bad = [["S", "%S()"], ["A", "%B()"], ["Bad", "%Upper{"], ["U", "%NoSuchTag()"], ["Z", "%Count(step=0)"], ["P", "x|y"],
           # the mistake sits after a line break inside the alias pattern (the report must still be a template error)
           ["T2", "%T2()_%T2()"], ["T3", "%Upper(){%T3()%T3()}-%T3()"],
           ["NL", "a_\n%NoSuchTag()"], ["NL2", "x\n\n%Upper{"], ["NL3", "ok\n%Count(step=0)"]]
    for _ in range(n):
        a = rng.choice(bad)
        extra = [["B", "%A()"]] if a[0] == "A" else []
        if rng.random() < 0.15:
            # an alias whose pattern uses, unqualified, a name that a user alias shares with a built-in tag: written in
            # place that is an ambiguous name, so it is one inside the alias too
            shadow, pat = rng.choice([(["Ext", ".bak"], "%Base()%Ext()"), (["Upper", "u"], "%Upper(){x}"), (["Size", "9"], "%Size()")])
            yield {"aliases": [shadow, ["Nn", pat]], "template": "%Nn()_%Core.Name()"}
            continue
        yield {"aliases": [a] + extra, "template": rng.choice(["%{}()_%Name()", "%Name()%{}()", "%Upper(){{%{}()}}"]).format(a[0])}


def impl_cli(case):
    with common.Sandbox({"in": None, "in/a": "A", "in/b": "B"}) as root:
        before = common.snapshot(root, with_ino=True)
        args = []
        for n, p in case["aliases"]:
            args += ["-a", f"{n}={p}"]
        out, err, rc = common.run_cli(args + ["--", case["template"], str(root / "in")])
        return {"rc": rc, "unchanged": common.snapshot(root, with_ino=True) == before, "err": err.strip()[-160:]}


def oracle_cli(case, obs):
    if obs["rc"] != 3:
        return f"invalid or cyclic alias {case['aliases']} in {case['template']!r} ends with status {obs['rc']} (expected 3): {obs['err']}"
    if not obs["unchanged"]:
        return "files were touched before the bad alias was reported"
    return None


def streams(tier):
    return [
        Stream("alias_render", gen_alias, impl_alias, lines_alias, obs_alias, oracle=oracle_alias, compare=compare_alias,
               nontrivial=lambda c, o: any("Count" in p for _, p in c["aliases"]) or c["host"].count("%Alias.") >= 2,
               classify=classify_alias, parallel=True, quick=2500, thorough=30000),
        Stream("cli_bad_alias", gen_cli, impl_cli, oracle=oracle_cli, parallel=True, quick=120, thorough=1200),
    ]
