"""Shared generators: hostile file names, strings, small directory trees."""
from __future__ import annotations

import random

META = list("%{}|()\\'\",=.-_ ")
ASCII = list("abcXYZ019")
NON_ASCII = list("éßЖ中ñ́ǅ İ")  # incl. combining acute, titlecase digraph, NBSP, dotted I
SPECIAL_NAMES = [
    "a", "b", ".a", "a.", "a.b", "a.b.c", "...", "..a", "a..", ".a.b", " ", " a", "a ", "a b.txt",
    "%Name()", "{x}", "a|b", "x'y", 'x"y', "back\\slash", "(p)", "-dash", "--", "é.ñ", "中.文", ".hidden.tar.gz",
    "a\nb", "tab\tname", "$(x)", "`x`", "*", "?", "[a]", "~", "#", "a=b", "a,b", "\\", "\\\\", "'", '"',
    "__init__.py", "notes__v2__final", "__pycache__", "con", "aux.txt", "NUL", "a:b", "a<b>c", "q?.x", "pipe|name", "trail.", "trail ",
    " lead", "COM1", "x\x1fy",
]


def gen_name(rng: random.Random, allow_newline=True, maxlen=8) -> str:
    r = rng.random()
    if r < 0.25:
        n = rng.choice(SPECIAL_NAMES)
    else:
        k = rng.randint(1, maxlen)
        pools = [ASCII, ASCII + ["."], ASCII + META, ASCII + NON_ASCII + META]
        pool = rng.choice(pools)
        n = "".join(rng.choice(pool) for _ in range(k))
    if rng.random() < 0.3:
        n += "." + "".join(rng.choice(ASCII + [".", " "]) for _ in range(rng.randint(0, 3)))
    n = n.replace("/", "_").replace("\x00", "_")
    if not allow_newline:
        n = n.replace("\n", "_").replace("\r", "_")
    if n in ("", ".", ".."):
        n = "x" + n
    return n


def gen_text(rng: random.Random, maxlen=10, alphabet=None) -> str:
    """Arbitrary context / argument string (may be empty, may contain anything)."""
    r = rng.random()
    if r < 0.08:
        return ""
    if r < 0.14:
        return rng.choice([" ", "  ", "\t", " \n "])
    pool = alphabet or rng.choice([ASCII, ASCII + META, ASCII + NON_ASCII + META + ["/", "\n", "\t"]])
    return "".join(rng.choice(pool) for _ in range(rng.randint(1, maxlen)))


def gen_relpath(rng: random.Random, maxdepth=3, **kw) -> str:
    return "/".join(gen_name(rng, **kw) for _ in range(rng.randint(1, maxdepth)))


def gen_tree(rng: random.Random, roots=("in",), max_entries=8, max_depth=3, links=True,
             hidden=True, names=None, hostile_names=False):
    """spec {relative path: content | None (dir) | ('link', target)}; the roots are directories.
    Names come from `names` (small universe, so plans collide) or are hostile."""
    spec = {}
    base_names = names or ["a", "b", "c", "d", "e.txt", "f.tar.gz"]
    hidden_names = [".h", ".hid.txt"] if hidden else []
    dir_names = ["s", "t", "u"] + ([".hd"] if hidden else [])
    for root in roots:
        spec[root] = None
        dirs = [root]
        for _ in range(rng.randint(0, 3)):
            parent = rng.choice(dirs)
            if parent.count("/") - root.count("/") >= max_depth - 1:
                continue
            d = parent + "/" + (gen_name(rng, allow_newline=False) if hostile_names and rng.random() < 0.5
                                else rng.choice(dir_names))
            if d not in spec:
                spec[d] = None
                dirs.append(d)
        for _ in range(rng.randint(1, max_entries)):
            parent = rng.choice(dirs)
            if hostile_names and rng.random() < 0.7:
                n = gen_name(rng, allow_newline=False)
            else:
                n = rng.choice(base_names + hidden_names)
            p = parent + "/" + n
            if p in spec:
                continue
            r = rng.random()
            if not links or r < 0.8:
                spec[p] = "C:" + p
            elif r < 0.9:
                spec[p] = ("link", rng.choice(base_names))  # sibling: file, or dangling
            else:
                spec[p] = ("link", "nowhere")
    return spec
