"""C14 — File-derived values enter filter/sort expressions as data, never as code."""
from __future__ import annotations

import io
import os
import tokenize
from pathlib import Path, PosixPath

from . import common, gen
from .common import Stream, enc_str, dec_str, enc_list
from .tmpl import esc_text

PROPERTY = "C14"
RULE = ("repr of every code point (exhaustive, in chunks, both quote choices); hostile strings (quotes, backslashes, "
        "newlines, parentheses, Python keywords/calls, format characters, non-ASCII, non-printables) followed by hostile "
        "continuations, scanned by Python's tokenizer and by the model; real process_as_expression + evaluate_expression "
        "with stub tags delivering hostile str/int/bool/PosixPath values in filter and sort shaped templates incl. "
        "nested contexts, with a canary side effect; CLI filter/sort runs on hostile file names; census of every "
        "context-free built-in tag on every sample file; non-trivial = value contains a quote, backslash, control or "
        "non-ASCII character; distinct by the full case")
ASSUMPTIONS = [
    "str.isprintable (Unicode table) is supplied to the model per case; the theorem holds for every table",
    "Python's tokenizer/compiler decode string literals as modelled by scanGo (compared each run)",
    "values of library-defined types are enumerated on the sample files, not proved",
]
TRUSTED = ["model PyRepr.lean hand-written; tied to repr()/tokenize by streams repr_all/repr_scan"]
CANARY = "CANARY_C14"
HOSTILE_VALUES = [
    "'", '"', "'\"", "\\", "\\'", "a\nb", "\r", "\t", "x' + __import__('os').system('touch " + CANARY + "') + 'y",
    "') or open('" + CANARY + "','w') or ('", "\"+str(open('" + CANARY + "','w'))+\"", "{0}%s{}", "lambda: 0",
    "é中", "\x00", "\x1f", "\x7f", "\x85", "\xa0", "\xad", " ", "\U0001f600", "\U000e0001", "None", "True",
    "import os", "a\\", "a\\n", "''' '''", "#", "`", "\\x41", "\\N{BULLET}", "￿", "ǅ",
]
RESTS = ["", " or True", ") or __import__('os')", " == 'x'", ", )", "#'", "\\", "'", '"', "\n", "+'", " if 1 else 2"]


def gen_value(rng):
    if rng.random() < 0.5:
        return rng.choice(HOSTILE_VALUES)
    return gen.gen_text(rng, 12, alphabet=list("ab'\"\\\n\r\t (){}%é\x00\x7f\x85 \U0001f600"))


def nonprintables(s):
    return sorted({ord(c) for c in s if ord(c) >= 128 and not c.isprintable()})


# ------------------------------------------------------------------ repr of every code point
def gen_repr_all(rng, n, tier):
    cases = []
    for lo in range(0, 0x110000, 0x4000):
        for prefix in ("", "'", "'\""):
            cases.append({"lo": lo, "hi": lo + 0x4000, "prefix": prefix})
    return cases


def _chunk_string(case):
    return case["prefix"] + "".join(chr(n) for n in range(case["lo"], case["hi"]) if not (0xD800 <= n <= 0xDFFF))


def impl_repr_all(case):
    return repr(_chunk_string(case))


def lines_repr_all(case):
    s = _chunk_string(case)
    return [f"repr {enc_str(s)} {enc_list([str(n) for n in nonprintables(s)])}"]


def obs_repr_all(case, answers):
    return dec_str(answers[0])


# ------------------------------------------------------------------ repr + scan of hostile strings
def gen_repr_scan(rng, n, tier):
    for _ in range(n):
        yield {"s": gen_value(rng), "rest": rng.choice(RESTS)}


def _python_scan(text):
    """extent and value of the string literal at the start of `text`, by Python's own tokenizer"""
    try:
        for tok in tokenize.generate_tokens(io.StringIO(text).readline):
            if tok.type == tokenize.STRING:
                import ast
                return [ast.literal_eval(tok.string), text[len(tok.string):]] if tok.start == (1, 0) else None
            if tok.type not in (tokenize.ENCODING, tokenize.NL, tokenize.COMMENT):
                return None
    except (tokenize.TokenError, SyntaxError, IndentationError):
        return None
    return None


def impl_repr_scan(case):
    r = repr(case["s"])
    return {"repr": r, "scan": _python_scan(r + case["rest"])}


def lines_repr_scan(case):
    s = case["s"]
    r = repr(s)  # the model is asked to scan what *Python* printed, and separately to print itself
    return [f"repr {enc_str(s)} {enc_list([str(n) for n in nonprintables(s)])}",
            f"scan {enc_str(r + case['rest'])}"]


def obs_repr_scan(case, answers):
    scan = None
    if answers[1] != "none":
        _, v, rest = answers[1].split(" ")
        scan = [dec_str(v), dec_str(rest)]
    return {"repr": dec_str(answers[0]), "scan": scan}


def compare_repr_scan(case, obs, pred):
    if obs["repr"] != pred["repr"]:
        return False
    if obs["scan"] is None:
        return True  # the continuation made Python's tokenizer give up before yielding; nothing to compare
    return obs["scan"] == pred["scan"]


def oracle_repr_scan(case, obs):
    s = case["s"]
    try:
        v = eval(obs["repr"], {}, {})
    except Exception as exc:
        return f"repr of {s!r} does not evaluate: {exc!r}"
    if v != s or type(v) is not str:
        return f"repr of {s!r} evaluates to {v!r}"
    if obs["scan"] is not None and obs["scan"] != [s, case["rest"]]:
        return f"literal of {s!r} followed by {case['rest']!r} scans as {obs['scan']!r}"
    return None


def nontrivial_str(case, obs):
    return any(c in "'\"\\\n\r\t" or ord(c) > 126 or ord(c) < 32 for c in case.get("s", ""))


# ------------------------------------------------------------------ real expression rendering + evaluation
_state = {}


def _registry():
    if "reg" not in _state:
        from tempren.pipeline import build_tag_registry
        from tempren.primitives import CategoryName, Tag

        def make(name):
            class _T(Tag):
                """Delivers a value chosen by the harness"""
                require_context = False
                value = None

                def process(self, file, context):
                    return type(self).value
            _T.__name__ = name + "Tag"
            return _T
        reg = build_tag_registry({}, {})
        cat = reg.register_category(CategoryName("Verif"))
        _state["tags"] = [make("SrcA"), make("SrcB")]
        for t in _state["tags"]:
            cat.register_tag_class(t)
        _state["reg"] = reg
    return _state["reg"]


SHAPES = [
    ("[%SrcA(), %SrcB()]", lambda a, b: [a, b]),
    ("%SrcA() == %SrcA(), %SrcB()", lambda a, b: (True, b)),
    ("(%SrcA(), 1, %SrcB())", lambda a, b: (a, 1, b)),
    ("[%SrcA()][0]", lambda a, b: a),
    ("%Upper(){%SrcA()}", lambda a, b: str(a).upper()),
    ("%Upper(){x%SrcA()y%SrcB()}", lambda a, b: ("x" + str(a) + "y" + str(b)).upper()),
    ("str(%SrcA()) + str(%SrcB())", lambda a, b: str(a) + str(b)),
    ("%SrcA() if True else %SrcB()", lambda a, b: a),
]


def gen_typed_value(rng):
    r = rng.random()
    if r < 0.6:
        return ["str", gen_value(rng)]
    if r < 0.75:
        return ["int", rng.choice([0, 1, -1, 12345, -(10 ** 30), 10 ** 40])]
    if r < 0.85:
        return ["bool", rng.random() < 0.5]
    return ["path", rng.choice([".", "a/b", "x'y/z", 'q"/\\', "é/中", "a\nb/c"])]


def _value(tv):
    kind, v = tv
    return PosixPath(v) if kind == "path" else v


def gen_expr(rng, n, tier):
    for _ in range(n):
        yield {"a": gen_typed_value(rng), "b": gen_typed_value(rng), "shape": rng.randrange(len(SHAPES))}


def impl_expr(case):
    from tempren.evaluation import evaluate_expression
    from tempren.primitives import File
    from tempren.template.compiler import TemplateCompiler
    reg = _registry()
    ta, tb = _state["tags"]
    ta.value, tb.value = _value(case["a"]), _value(case["b"])
    text, expect = SHAPES[case["shape"]]
    with common.Sandbox() as root:
        old = os.getcwd()
        os.chdir(root)
        try:
            pattern = TemplateCompiler(reg).compile(text)
            rendered = pattern.process_as_expression(File(root, Path("f")))
            try:
                value = evaluate_expression(rendered)
                ok = value == expect(ta.value, tb.value) and _same_types(value, expect(ta.value, tb.value))
                result = ["ok" if ok else "wrong", repr(value)[:200]]
            except Exception as exc:
                result = ["raised", repr(exc.__cause__ or exc)[:200]]
            canary = any(CANARY in n for n in os.listdir(root))
        finally:
            os.chdir(old)
    return {"result": result, "canary": canary, "rendered": rendered[:300]}


def _same_types(x, y):
    if type(x) is not type(y):
        return False
    if isinstance(x, (list, tuple)):
        return len(x) == len(y) and all(_same_types(a, b) for a, b in zip(x, y))
    return True


def oracle_expr(case, obs):
    if obs["canary"]:
        return f"a tag value was executed as code (canary file created); rendered: {obs['rendered']!r}"
    if obs["result"][0] != "ok":
        return (f"expression {SHAPES[case['shape']][0]!r} with values {case['a']!r}, {case['b']!r} rendered as "
                f"{obs['rendered']!r} gives {obs['result']!r}")
    return None


# ------------------------------------------------------------------ CLI: hostile file names in filter and sort position
def gen_cli(rng, n, tier):
    for _ in range(n):
        names = set()
        while len(names) < rng.randint(2, 4):
            # log lines are parsed to learn the processing order, so no line breaks in these names
            v = gen_value(rng).replace("/", "_").replace("\x00", "_").replace("\n", "_").replace("\r", "_")
            if v not in ("", ".", "..") and len(v.encode()) < 200:
                names.add(v)
        names = sorted(names)
        # the comparison literal is user-written template text: it cannot contain % or TAB, and must not end in a backslash
        targets = [i for i, v in enumerate(names) if "%" not in v and "\t" not in v]
        if not targets:
            continue
        yield {"names": names, "target": rng.choice(targets), "position": rng.choice(["filter", "sort"])}


def impl_cli(case):
    spec = {"in": None}
    for n in case["names"]:
        spec["in/" + n] = "x"
    with common.Sandbox(spec) as root:
        target = case["names"][case["target"]]
        if case["position"] == "filter":
            extra = ["-ft", "%Name() == " + esc_text(repr(target))]
        else:
            extra = ["--sort=%Name(), len(%Name())"]
        out, err, rc = common.run_cli(["n%Count()", str(root / "in"), "--dry-run", "-ih"] + extra, cwd=root)
        ev = common.parse_events(out)
        canary = any(CANARY in n for n in os.listdir(root)) or any(CANARY in n and n not in case["names"] for n in os.listdir(root / "in"))
        return {"rc": rc, "sources": [s for s, _, _ in ev], "canary": canary, "err": err.strip()[-200:] if rc else ""}


def oracle_cli(case, obs):
    if obs["canary"]:
        return "a file name was executed as code (canary created)"
    if obs["rc"] != 0:
        return f"exit {obs['rc']}: {obs['err']}"
    if case["position"] == "filter":
        if obs["sources"] != [case["names"][case["target"]]]:
            return f"filter selected {obs['sources']!r}, expected only {case['names'][case['target']]!r}"
    elif obs["sources"] != sorted(case["names"]):
        return f"sorted by name processed {obs['sources']!r}, expected {sorted(case['names'])!r}"
    return None


# ------------------------------------------------------------------ census of the built-in tags (exhaustive over registry x samples)
def gen_census(rng, n, tier):
    reg = _registry()
    data = common.REPO / "tests" / "test_data"
    files = sorted(str(p.relative_to(data)) for p in data.rglob("*") if p.is_file())
    cases = []
    for cname, cat in sorted(reg.category_map.items()):
        if cname == "Verif":
            continue
        for tname in sorted(cat.tag_map):
            cases.append({"tag": f"{cname}.{tname}", "files": files})
    return cases


BASELINE_ARGS = {"core.IsMime": ["text"], "image.Exif": ["DateTime"], "image.IsOrientation": [], }
BASELINE_KWARGS = {"image.IsOrientation": {"landscape": True}}


def impl_census(case):
    import contextlib
    from tempren.evaluation import _evaluation_locals
    from tempren.primitives import File, QualifiedTagName
    cname, tname = case["tag"].split(".")
    factory = _registry().get_tag_factory(QualifiedTagName(tname, cname))
    if getattr(factory._tag_class, "require_context", None) is True:
        return {"skipped": "context tag"}
    try:
        tag = factory(*BASELINE_ARGS.get(case["tag"], []), **BASELINE_KWARGS.get(case["tag"], {}))
    except Exception as exc:
        return {"skipped": "needs arguments: " + type(exc).__name__}
    data = common.REPO / "tests" / "test_data"
    produced, bad = 0, []
    for rel in case["files"]:
        p = data / rel
        try:
            with contextlib.redirect_stderr(io.StringIO()), contextlib.redirect_stdout(io.StringIO()):
                v = tag.process(File(p.parent, Path(p.name)), None)
        except Exception:
            continue
        produced += 1
        try:
            w = eval(repr(v), {}, dict(_evaluation_locals))
            ok = w == v and type(w) is type(v)
        except Exception:
            ok = False
        if not ok:
            bad.append([rel, type(v).__name__, repr(v)[:80]])
    return {"produced": produced, "bad": bad[:3]}


def oracle_census(case, obs):
    if obs.get("bad"):
        rel, tname, r = obs["bad"][0]
        return (f"value of %{case['tag']}() on {rel} ({tname}: {r}) does not survive repr/eval",
                {"tag": case["tag"], "value_type": tname})
    return None


def streams(tier):
    return [
        Stream("repr_all", gen_repr_all, impl_repr_all, lines_repr_all, obs_repr_all, exhaustive=True,
               quick=1, thorough=1, parallel=True),
        Stream("repr_scan", gen_repr_scan, impl_repr_scan, lines_repr_scan, obs_repr_scan, oracle=oracle_repr_scan,
               compare=compare_repr_scan, nontrivial=nontrivial_str, quick=30000, thorough=300000,
               classify=lambda c, o: ["scan:" + ("none" if o["scan"] is None else "ok")]),
        Stream("expr", gen_expr, impl_expr, oracle=oracle_expr, parallel=True,
               nontrivial=lambda c, o: c["a"][0] != "str" or nontrivial_str({"s": c["a"][1]}, o),
               classify=lambda c, o: ["shape:%d" % c["shape"], "a:" + c["a"][0], "b:" + c["b"][0]],
               quick=6000, thorough=60000),
        Stream("cli_names", gen_cli, impl_cli, oracle=oracle_cli, parallel=True,
               classify=lambda c, o: ["position:" + c["position"]], quick=400, thorough=4000),
        Stream("census", gen_census, impl_census, oracle=oracle_census, parallel=True, exhaustive=True,
               nontrivial=lambda c, o: bool(o.get("produced")),
               classify=lambda c, o: ["skipped" if "skipped" in o else "values:%d" % min(o["produced"], 3)],
               quick=1, thorough=1),
    ]
