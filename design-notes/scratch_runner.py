import io, os, sys, shutil, tempfile, logging
from contextlib import redirect_stdout, redirect_stderr
from pathlib import Path
import tempren.cli

def run(args, stdin_text=None):
    old = sys.argv[:]
    sys.argv[1:] = [str(a) for a in args]
    out, err = io.StringIO(), io.StringIO()
    old_stdin = sys.stdin
    if stdin_text is not None:
        sys.stdin = io.StringIO(stdin_text)
    # reset logging
    root = logging.getLogger()
    for h in list(root.handlers): root.removeHandler(h)
    cwd = os.getcwd()
    try:
        with redirect_stdout(out), redirect_stderr(err):
            rc = tempren.cli.main()
    finally:
        sys.argv = old; sys.stdin = old_stdin
        os.chdir(cwd)
    return out.getvalue(), err.getvalue(), int(rc)

def mk(root, spec):
    """spec: dict path -> content str | None (dir) | ('link', target)"""
    root = Path(root)
    for p, c in spec.items():
        fp = root / p
        fp.parent.mkdir(parents=True, exist_ok=True)
        if c is None: fp.mkdir(exist_ok=True)
        elif isinstance(c, tuple): os.symlink(c[1], fp)
        else: fp.write_text(c)

def snap(root):
    root = Path(root); res = {}
    for dp, dn, fn in os.walk(root, followlinks=False):
        for n in dn + fn:
            p = Path(dp) / n
            rel = str(p.relative_to(root))
            if p.is_symlink(): res[rel] = ('link', os.readlink(p))
            elif p.is_dir(): res[rel] = None
            else: res[rel] = p.read_text()
    return dict(sorted(res.items()))

class Sandbox:
    def __init__(self, spec):
        self.d = tempfile.mkdtemp(prefix='tr_')
        mk(self.d, spec)
    def __enter__(self): return Path(self.d)
    def __exit__(self, *a): shutil.rmtree(self.d, ignore_errors=True)
