"""Reference (model-shaped) lexer + recursive-descent parser for the tempren template grammar."""
import re
ID_START = set('abcdefghijklmnopqrstuvwxyzABCDEFGHIJKLMNOPQRSTUVWXYZ_')
ID_CHAR = ID_START | set('0123456789')
class Reject(Exception): pass

def lex(s):
    toks = []; i = 0; n = len(s); mode = 'D'
    while i < n:
        c = s[i]
        if mode == 'D':
            if c in '\t\n\r': i += 1
            elif c == '%': toks.append(('TAG_START', c)); i += 1; mode = 'T'
            elif c == '|': toks.append(('PIPE', c)); i += 1
            elif c == '{': toks.append(('CS', c)); i += 1
            elif c == '}': toks.append(('CE', c)); i += 1
            else:
                j = i
                while j < n:
                    d = s[j]
                    if d == '\\' and j + 1 < n and s[j+1] in '{}|': j += 2
                    elif d in '%{}|\t\n\r': break
                    else: j += 1
                toks.append(('TEXT', s[i:j])); i = j
        elif mode == 'T':
            if c in '\t\n\r': i += 1
            elif c == '(': toks.append(('AS', c)); i += 1; mode = 'A'
            elif c == '{': toks.append(('CS', c)); i += 1; mode = 'D'
            elif c == '.': toks.append(('DOT', c)); i += 1
            elif c in ID_START:
                j = i
                while j < n and s[j] in ID_CHAR: j += 1
                toks.append(('TAG_ID', s[i:j])); i = j
            else: raise Reject('lex')
        else:
            if c in ' \t\n\r': i += 1
            elif c == ')': toks.append(('AE', c)); i += 1; mode = 'D'
            elif c == ',': toks.append(('SEP', c)); i += 1
            elif c == '=': toks.append(('EQ', c)); i += 1
            elif c in '0123456789' or (c == '-' and i + 1 < n and s[i+1] in '0123456789'):
                j = i + 1
                while j < n and s[j] in '0123456789': j += 1
                toks.append(('NUM', s[i:j])); i = j
            elif c in ID_START:
                j = i
                while j < n and s[j] in ID_CHAR: j += 1
                w = s[i:j]
                toks.append(('BOOL' if w in ('true', 'True', 'false', 'False') else 'ARG_NAME', w)); i = j
            elif c in '\'"':
                # first same quote not preceded by backslash, else last same quote
                end = None; last = None; j = i + 1
                while j < n:
                    if s[j] == c:
                        last = j
                        if s[j-1] != '\\' or j - 1 == i:
                            end = j; break
                    j += 1
                if end is None: end = last
                if end is None: raise Reject('lex')
                toks.append(('STR', s[i:end+1])); i = end + 1
            else: raise Reject('lex')
    return toks

def unescape(t):
    for ec in ("'", "\\", "{", "}", "|"): t = t.replace("\\" + ec, ec)
    return t
def unescape_string(t, q): return re.sub(r"\\([\\" + q + "])", r"\1", t)

class P:
    def __init__(self, toks): self.t = toks; self.i = 0
    def peek(self): return self.t[self.i][0] if self.i < len(self.t) else 'EOF'
    def take(self, k):
        if self.peek() != k: raise Reject('parse')
        v = self.t[self.i][1]; self.i += 1; return v
    def pattern(self):
        els = []
        while self.peek() in ('TEXT', 'TAG_START'):
            if self.peek() == 'TEXT': els.append(('raw', unescape(self.take('TEXT'))))
            else: els.append(self.tag())
        if self.peek() == 'PIPE':
            ctx = els
            while self.peek() == 'PIPE':
                self.take('PIPE')
                if self.peek() != 'TAG_START': raise Reject('nontag')
                t = self.tag()
                if t[5] is not None: pass
                # piped tag keeps its own parsed context? grammar: tag may have context; visitor overwrites it
                t = t[:5] + (ctx,)
                ctx = [t]
            return ctx
        return els
    def tag(self):
        self.take('TAG_START'); cat = None
        name = self.take('TAG_ID')
        if self.peek() == 'DOT':
            self.take('DOT'); cat = name; name = self.take('TAG_ID')
        args, kwargs = [], {}
        if self.peek() == 'AS':
            self.take('AS')
            if self.peek() != 'AE':
                while True:
                    k, v = self.argument()
                    if k is None: args.append(v)
                    else: kwargs[k] = v
                    if self.peek() == 'SEP': self.take('SEP'); continue
                    break
            self.take('AE')
            ctx = None
            if self.peek() == 'CS':
                self.take('CS'); ctx = self.pattern(); self.take('CE')
        else:
            self.take('CS'); ctx = self.pattern(); self.take('CE')
        return ('tag', cat, name, args, tuple(sorted(kwargs.items(), key=lambda kv: kv[0])), ctx)
    def argument(self):
        k = self.peek()
        if k == 'ARG_NAME':
            name = self.take('ARG_NAME')
            if self.peek() == 'EQ':
                self.take('EQ'); return name, self.value()
            return name, True
        return None, self.value()
    def value(self):
        k = self.peek()
        if k == 'BOOL': return self.take('BOOL').lower() == 'true'
        if k == 'NUM': return int(self.take('NUM'))
        if k == 'STR':
            s = self.take('STR'); return unescape_string(s[1:-1], s[0])
        raise Reject('value')

def parse(s):
    p = P(lex(s)); r = p.pattern()
    if p.peek() != 'EOF': raise Reject('trailing')
    return r

# --- conversion of real AST
def conv(seq):
    from tempren.template.ast import RawText, TagPlaceholder
    out = []
    for e in seq.sub_elements:
        if isinstance(e, RawText): out.append(('raw', e.text))
        else:
            out.append(('tag', e.tag_name.category, str(e.tag_name.name), list(e.args), tuple(sorted(e.kwargs.items())), conv(e.context) if e.context is not None else None))
    return out
