from runner import *
import sys
def case(title, spec, args, stdin=None, quiet=False):
    with Sandbox(spec) as d:
        a = [x.replace('@D', str(d)) if isinstance(x,str) else x for x in args]
        before = snap(d)
        o, e, rc = run(a, stdin)
        after = snap(d)
        print('==', title, '\n args', [x[:80] for x in args], '\n rc', rc)
        if not quiet: print(' out:', o.strip().replace('\n', ' | ')[:300])
        print(' err:', e.strip().replace('\n', ' | ')[:400])
        print(' changed' if before != after else ' unchanged', after if before != after else '')

F = {'in/a.txt': 'A', 'in/b': 'B'}
for depth in (50, 100, 200, 400, 1000):
    t = '%Upper{' * depth + 'x' + '}' * depth
    case(f'C09 deep nesting {depth}', F, [t, '@D/in', '--dry-run'], quiet=True)
case('C09 huge int', F, ['%Count(start=' + '1'*5000 + ')', '@D/in', '--dry-run'], quiet=True)
case('C09 self alias', F, ['-a', 'A=%A()', '%A()', '@D/in', '--dry-run'], quiet=True)
case('C09 mutual alias', F, ['-a', 'A=%B()', '-a', 'B=%A()', '%A()', '@D/in', '--dry-run'], quiet=True)
case('C10 string backslash brace', F, ["%Default('\\\\{'){}", '@D/in', '--dry-run'])
case('C10 dq string', F, ['%Default("a\\"b"){}', '@D/in', '--dry-run'])
case('C12 adhoc lower', F, ['-ah', 'E=echo', '%adhoc.E()', '@D/in', '--dry-run'])
case('C12 Adhoc', F, ['-ah', 'E=echo', '%Adhoc.E()', '@D/in', '--dry-run'])
case('C12 AdHoc', F, ['-ah', 'E=echo', '%AdHoc.E()', '@D/in', '--dry-run'])
case('C12 alias lower', F, ['-a', 'E=x%Name()', '%alias.E()', '@D/in', '--dry-run'])
case('C12 CORE upper', F, ['%CORE.Name()x', '@D/in', '--dry-run'])
case('C18 replace empty', F, ["%Base()%Replace('a','b'){%Ext()}", '@D/in', '--dry-run'])
case('C18 sanitize empty', F, ["%Base()%Sanitize(){%Ext()}", '@D/in', '--dry-run'])
case('C18 splitcase backslash', F, ["%SplitCase('\\\\'){aB}", '@D/in', '--dry-run'])
case('C18 collapse special', F, ["%Collapse(']'){a]]b}", '@D/in', '--dry-run'])
case('C18 collapse caret', F, ["%Collapse('^a'){aabbb}", '@D/in', '--dry-run'])
case('C18 pad 2chars', F, ["%Pad(5, 'ab', left){x}", '@D/in', '--dry-run'])
case('C18 trim 0', F, ["%Trim(0, left){x}", '@D/in', '--dry-run'])
