import itertools
def run(files, plan, order):
    fs = set(files); backlog = []
    for f in order:
        d = plan[f]
        if d == f: continue
        if d in fs: backlog.append((f, d))
        else: fs.remove(f); fs.add(d)
    while backlog:
        f, d = backlog.pop()
        if d in fs: return False
        fs.remove(f); fs.add(d)
    return True
N = 5
files = list(range(N)); universe = list(range(N + 2))
tot = 0; viol = 0; succ_nonuniform = 0
for dsts in itertools.product(universe, repeat=N):
    plan = dict(zip(files, dsts))
    if len(set(dsts)) < N: continue                      # distinct destinations
    # acyclic: no cycle among moving files
    def cyclic():
        for f in files:
            seen = set(); x = f
            while x in plan and plan[x] != x and x not in seen:
                seen.add(x); x = plan[x]
            if x in seen and plan.get(x) != x: return True
        return False
    if cyclic(): continue
    # destinations that pre-exist must be sources that move away
    if any(d in files and plan[d] == d and d != f for f, d in plan.items()): continue
    pairs = [(f, plan[f]) for f in files if plan[f] != f and plan[f] in files]   # f depends on g=plan[f]
    for order in itertools.permutations(files):
        pos = {f: i for i, f in enumerate(order)}
        dirs = {pos[f] < pos[g] for f, g in pairs}
        uniform = len(dirs) <= 1
        ok = run(files, plan, order); tot += 1
        if uniform and not ok: viol += 1; print('uniform but fails', plan, order)
        if ok and not uniform: succ_nonuniform += 1
print('cases', tot, 'uniform-but-fail', viol, 'success-nonuniform', succ_nonuniform)
