from runner import *
import os, inspect, re, shutil
from tempren.pipeline import build_tag_registry
from tempren.template.compiler import TemplateCompiler
from tempren.template.exceptions import TemplateError
from tempren.primitives import File
# C17: no-op templates on exotic names
names = ['a', '.a', 'a.', 'a.b', 'a..b', '...', ' ', 'a b', 'é.ü', '%x', '{x}', 'a|b', "q'\"", 'a\\b', 'x.tar.gz', '.', ]
spec = {}
for i, n in enumerate(names):
    if n in ('.',): continue
    spec['in/' + n] = 'c'; spec['in/d.%d/' % i + n] = 'c'
for mode, tmpl in [('-n', '%Base()%Ext()'), ('-n', '%Name()'), ('-p', '%Dir()/%Name()'), ('-d', '%Name()'), ('-d', '%Base()%Ext()')]:
    with Sandbox(spec) as d:
        b = snap(d); o, e, rc = run([mode, '-r', '-ih', tmpl, str(d/'in')]); a = snap(d)
        print('C17', mode, tmpl, 'rc', rc, 'renamed' , o.count('Renamed:'), 'changed', a != b, e.strip()[:200])
# C13/C14 census
reg = build_tag_registry({}, {})
comp = TemplateCompiler(reg)
data = Path('/repo/tests/test_data')
samples = [p for p in data.rglob('*') if p.is_file()]
print('samples', len(samples))
from tempren.evaluation import evaluate_expression
nonlit = {}
for cat, c in sorted(reg.category_map.items()):
    for tname, fac in sorted(c.tag_map.items()):
        sig = fac.configuration_signature.split('\n')[0]
        rc_ = getattr(fac, '_tag_class').require_context
        if rc_ is True: continue
        # try to instantiate without args
        try: pat = comp.compile(f'%{cat}.{tname}()')
        except TemplateError as ex: 
            print('  needs args:', cat, tname, sig); continue
        for sp in samples:
            f = File(sp.parent, Path(sp.name))
            try:
                v = pat.sub_elements[0].process(f)
            except Exception as ex: continue
            try:
                ok = (evaluate_expression(repr(v)) == v) and type(evaluate_expression(repr(v))) is type(v)
            except Exception as ex: ok = False
            if not ok: nonlit.setdefault((cat, tname), set()).add(type(v).__name__)
print('C14 non-literal values:', nonlit)
