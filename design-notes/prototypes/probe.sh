#!/bin/sh
# record argv, cwd, stdin
{
  echo "ARGC=$#"
  for a in "$@"; do printf 'ARG=[%s]\n' "$a"; done
  echo "CWD=$(pwd)"
  if [ -t 0 ]; then echo "STDIN=tty"; else printf 'STDIN=[%s]\n' "$(cat)"; fi
} >> "$PROBE_LOG"
echo "  out put  "
echo "errtext" >&2
