import random, sys, io, contextlib
from refparse import *
from tempren.template.parser import TemplateParser
from tempren.template.exceptions import TemplateError
rp = TemplateParser(); rnd = random.Random(int(sys.argv[1])); N = int(sys.argv[2])
TEXTCH = list("ab \\{}|'\"().,=-1é\u0301%") 
def gen_text(minlen=1):
    while True:
        s = ''.join(rnd.choice(TEXTCH) for _ in range(rnd.randint(minlen, 6)))
        s = s.replace('%', '')
        if len(s) >= minlen and not s.endswith('\\'): return s
def gen_str():
    while True:
        s = ''.join(rnd.choice(TEXTCH + ['%', '\t', '\n']) for _ in range(rnd.randint(0, 6)))
        if not s.endswith('\\'): return s
def gen_id(): return rnd.choice(['T', 'Name', '_x1', 'true1', 'A9'])
def gen_val():
    r = rnd.random()
    if r < 0.3: return rnd.choice([0, 1, -1, 10**30, -(10**25), 42])
    if r < 0.5: return rnd.choice([True, False])
    return gen_str()
def gen_pattern(depth):
    els = []
    for _ in range(rnd.randint(0, 3)):
        if rnd.random() < 0.5 and (not els or els[-1][0] != 'raw'): els.append(('raw', gen_text()))
        else: els.append(gen_tag(depth))
    return els
def gen_tag(depth):
    cat = gen_id() if rnd.random() < 0.3 else None
    args = [gen_val() for _ in range(rnd.randint(0, 2))]
    names = rnd.sample(['a', 'left', 'w_1', 'True_'], rnd.randint(0, 2))
    kwargs = tuple(sorted((n, gen_val()) for n in names))
    ctx = gen_pattern(depth - 1) if depth > 0 and rnd.random() < 0.5 else None
    return ('tag', cat, gen_id(), args, kwargs, ctx)
def esc_text(t): return t.replace('\\', '\\\\').replace('{', '\\{').replace('}', '\\}').replace('|', '\\|')
def p_val(v, kw=False):
    if v is True: return rnd.choice(['true', 'True'])
    if v is False: return rnd.choice(['false', 'False'])
    if isinstance(v, int): return str(v)
    q = rnd.choice('\'"'); return q + v.replace('\\', '\\\\').replace(q, '\\' + q) + q
def p_tag(t):
    _, cat, name, args, kwargs, ctx = t
    parts = [p_val(v) for v in args]
    for k, v in kwargs:
        if v is True and rnd.random() < 0.5: parts.append(k)
        else: parts.append(k + rnd.choice(['=', ' = ']) + p_val(v))
    s = '%' + (cat + '.' if cat else '') + name
    if parts or ctx is None or rnd.random() < 0.5: s += '(' + rnd.choice([', ', ',']).join(parts) + ')'
    if ctx is not None: s += '{' + p_pat(ctx) + '}'
    return s
def p_pat(els): return ''.join(esc_text(e[1]) if e[0] == 'raw' else p_tag(e) for e in els)
bad = 0
for i in range(N):
    t = gen_pattern(3); s = p_pat(t)
    try:
        with contextlib.redirect_stderr(io.StringIO()): r = conv(rp.parse(s))
    except TemplateError as e: r = ('rej', str(e))
    try: m = parse(s)
    except Reject as e: m = ('rej', str(e))
    if r != t or m != t:
        bad += 1
        if bad <= 10: print('DIFF', repr(s)); print('  tree ', t); print('  real ', r); print('  model', m)
print('seed', sys.argv[1], 'trees', N, 'bad', bad)
