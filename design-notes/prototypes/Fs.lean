namespace Fs
abbrev Name := String
abbrev Path := List Name

inductive Kind | file | dir | link (target : String)
deriving DecidableEq, Repr

structure Entry where
  path : Path
  id : Nat
  kind : Kind
  content : Nat
deriving DecidableEq, Repr

abbrev FS := List Entry

def lexists (fs : FS) (p : Path) : Bool := fs.any (fun e => e.path == p)

/-- identity, kind and content of every non-directory entry -/
def leaves (fs : FS) : List (Nat × Kind × Nat) :=
  (fs.filter (fun e => e.kind != Kind.dir)).map (fun e => (e.id, e.kind, e.content))

/-- re-key `a`'s subtree under `b` -/
def rekey (a b : Path) (e : Entry) : Entry :=
  if a.isPrefixOf e.path then { e with path := b ++ e.path.drop a.length } else e

/-- rename when destination does not exist (the only case reachable without override) -/
def renameFresh (fs : FS) (a b : Path) : FS := fs.map (rekey a b)

theorem leaves_renameFresh (fs : FS) (a b : Path) : leaves (renameFresh fs a b) = leaves fs := by
  unfold leaves renameFresh
  induction fs with
  | nil => rfl
  | cons e t ih =>
    simp only [List.map_cons, List.filter_cons]
    have hk : (rekey a b e).kind = e.kind := by unfold rekey; split <;> rfl
    have hi : (rekey a b e).id = e.id := by unfold rekey; split <;> rfl
    have hc : (rekey a b e).content = e.content := by unfold rekey; split <;> rfl
    rw [hk]
    split <;> simp_all

def pathsNodup (fs : FS) : Prop := (fs.map (·.path)).Nodup

/-- `b` and nothing under it exists -/
def freeBelow (fs : FS) (b : Path) : Prop := ∀ e ∈ fs, ¬ b.isPrefixOf e.path = true

theorem isPrefixOf_append_drop {a p : Path} (h : a.isPrefixOf p = true) : p = a ++ p.drop a.length := by
  have := List.isPrefixOf_iff_prefix.mp h
  obtain ⟨t, rfl⟩ := this
  simp

theorem nodup_renameFresh (fs : FS) (a b : Path) (hn : pathsNodup fs) (hfree : freeBelow fs b)
    (hab : ¬ a.isPrefixOf b = true) : pathsNodup (renameFresh fs a b) := by
  unfold pathsNodup renameFresh at *
  rw [List.map_map]
  rw [List.nodup_iff_pairwise_ne] at *
  rw [List.pairwise_map] at *
  refine hn.imp_of_mem ?_
  intro x y hx hy hne
  simp only [Function.comp, rekey]
  split <;> split
  · rename_i h1 h2
    intro h
    have := List.append_cancel_left h
    apply hne
    rw [isPrefixOf_append_drop h1, isPrefixOf_append_drop h2, this]
  · rename_i h1 h2
    intro h
    apply hfree y hy
    rw [← h]
    exact List.isPrefixOf_iff_prefix.mpr (List.prefix_append _ _)
  · rename_i h1 h2
    intro h
    apply hfree x hx
    rw [h]
    exact List.isPrefixOf_iff_prefix.mpr (List.prefix_append _ _)
  · exact hne
end Fs
