import random, sys, os, re, shutil, tempfile, json
from runner import *
seed = int(sys.argv[1]); N = int(sys.argv[2]); rnd = random.Random(seed)
NAMES = ['a', 'b', 'c', 'd', '.h', 'e.txt']
def gen_tree(root):
    spec = {}
    dirs = [root]
    for i in range(rnd.randint(0, 2)):
        d = rnd.choice(dirs) + '/' + rnd.choice(['s', 't', '.hd'])
        if d not in spec: spec[d] = None; dirs.append(d)
    spec[root] = None
    for i in range(rnd.randint(1, 5)):
        d = rnd.choice(dirs); n = rnd.choice(NAMES); p = d + '/' + n
        if p in spec: continue
        r = rnd.random()
        if r < 0.75: spec[p] = 'C:' + p
        elif r < 0.87: spec[p] = ('link', rnd.choice(NAMES))       # link to sibling name (file or dangling)
        else: spec[p] = ('link', 'nowhere')
    return spec
def esc(t): return t.replace('\\', '\\\\').replace('{', '\\{').replace('}', '\\}').replace('|', '\\|')
def events(out): 
    ev = []; lines = out.split('\n')
    for i, l in enumerate(lines):
        if l.startswith('Renamed: '): ev.append((l[9:], lines[i+1].strip()))
    return ev
def leaves(s): return sorted((repr(v)) for k, v in s.items() if v is not None)
bad = 0
for it in range(N):
    roots = ['r1'] if rnd.random() < 0.6 else ['r1', 'r2']
    spec = {}
    for r in roots: spec.update(gen_tree(r))
    mode = rnd.choice(['name', 'name', 'path'])
    recursive = rnd.random() < 0.5; hidden = rnd.random() < 0.3
    strat = rnd.choice(['-cs', '-ci', '-co', '-cs'])
    # plan: map rel path -> new
    plan = {}
    for p, v in spec.items():
        if v is None: continue
        root, rel = p.split('/', 1)
        if rnd.random() < 0.8:
            if mode == 'name': plan[rel] = rnd.choice(NAMES + ['x', 'y', 'z'])
            else: plan[rel] = rnd.choice(['', 's/', 'n/', 't/']) + rnd.choice(NAMES + ['x', 'y'])
    key = "'%Dir()/%Name()'.removeprefix('./')"
    default = "'%Name()'" if mode == 'name' else key
    tmpl = "%Eval(){" + esc(repr(plan)) + ".get(" + key + ", " + default + ")}"
    args = [tmpl] + ['@D/' + r for r in roots] + [strat, '-s', "%Dir(), %Name()" if rnd.random()<0.7 else "%Name(), %Dir()"]
    if rnd.random() < 0.3: args.append('-si')
    if mode == 'path': args.append('-p')
    if recursive: args.append('-r')
    if hidden: args.append('-ih')
    res = {}
    for dry in (True, False):
        with Sandbox(spec) as d:
            a = [x.replace('@D', str(d)) for x in args] + (['--dry-run'] if dry else [])
            before = snap(d); o, e, rc = run(a); after = snap(d)
            res[dry] = (rc, events(o), before, after, e)
    (rcd, evd, b1, a1, e1), (rcr, evr, b2, a2, e2) = res[True], res[False]
    problems = []
    if a1 != b1: problems.append('dry changed fs')
    if (rcd, evd) != (rcr, evr): problems.append(f'dry!=real rc {rcd} vs {rcr} ev {evd} vs {evr}')
    if strat != '-co' and leaves(b2) != leaves(a2): problems.append('leaf lost/changed')
    if problems:
        bad += 1
        if bad <= 12:
            print('---', it, mode, args[1:], 'plan', plan); print('  spec', spec); print('  ', problems); print('  after real', a2); print('  err', e1.strip()[-200:], '||', e2.strip()[-200:])
print('seed', seed, 'runs', N, 'bad', bad)
