import sys, itertools, io, contextlib, random
from refparse import *
from tempren.template.parser import TemplateParser
from tempren.template.exceptions import TemplateError
rp = TemplateParser()
def real(s):
    try:
        with contextlib.redirect_stderr(io.StringIO()):
            return ('ok', conv(rp.parse(s)))
    except TemplateError as e: return ('rej', None)
    except RecursionError: return ('rec', None)
def model(s):
    try: return ('ok', parse(s))
    except Reject: return ('rej', None)
ALPH = ['%', 'T', '.', '(', ')', '{', '}', '|', 'x', ',', '=', '1', "'s'", 'true', ' ', '\\', "'", '"', '-', 'é', '\t', 'a b']
L = int(sys.argv[1]); bad = 0; n = 0; acc = 0
for k in range(L + 1):
    for combo in itertools.product(ALPH, repeat=k):
        s = ''.join(combo); n += 1
        r, m = real(s), model(s)
        if r[0] == 'ok': acc += 1
        if r != m:
            bad += 1
            if bad <= 25: print('DIFF', repr(s), r, m)
print('len<=', L, 'strings', n, 'accepted', acc, 'diffs', bad)
