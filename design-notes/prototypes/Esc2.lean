namespace Esc2
abbrev bs : Char := '\\'

def rep2 (b r : Char) : List Char → List Char
  | [] => []
  | [x] => [x]
  | x :: y :: t => if x = bs ∧ y = b then r :: rep2 b r t else x :: rep2 b r (y :: t)

def blk (n : Nat) (c : Char) : List Char := List.replicate n bs ++ [c]

@[simp] theorem rep2_nil (b r) : rep2 b r [] = [] := by simp [rep2]
@[simp] theorem rep2_single (b r x) : rep2 b r [x] = [x] := by simp [rep2]
theorem rep2_cons_cons (b r x y t) :
    rep2 b r (x :: y :: t) = if x = bs ∧ y = b then r :: rep2 b r t else x :: rep2 b r (y :: t) := by
  simp [rep2]

/-- a non-backslash head is copied -/
theorem rep2_cons_ne (b r c) (hc : c ≠ bs) (t : List Char) : rep2 b r (c :: t) = c :: rep2 b r t := by
  cases t with
  | nil => simp
  | cons y t => rw [rep2_cons_cons]; simp [hc]

/-- pattern `\b` with b ≠ `\`: only the last backslash of a run can pair with c -/
theorem rep2_blk_ne (b r : Char) (hb : b ≠ bs) (n : Nat) (c : Char) (hc : c ≠ bs) (rest : List Char) :
    rep2 b r (blk n c ++ rest) =
      (if c = b ∧ 0 < n then List.replicate (n-1) bs ++ [r] else blk n c) ++ rep2 b r rest := by
  induction n with
  | zero => simp [blk, rep2_cons_ne _ _ _ hc]
  | succ n ih =>
    cases n with
    | zero =>
      simp only [blk, List.replicate, List.nil_append, List.cons_append]
      rw [rep2_cons_cons]
      by_cases h : c = b
      · simp [h]
      · simp [h, rep2_cons_ne _ _ _ hc]
    | succ m =>
      have : blk (m + 1 + 1) c ++ rest = bs :: bs :: (List.replicate m bs ++ [c] ++ rest) := by
        simp [blk, List.replicate]
      rw [this, rep2_cons_cons]
      have hbb : ¬ (bs = bs ∧ bs = b) := by intro h; exact hb h.2.symm
      rw [if_neg hbb]
      have ih' := ih
      simp only [blk, List.replicate, List.cons_append] at ih'
      simp only [List.append_assoc] at ih' ⊢
      rw [ih']
      by_cases h : c = b
      · simp [h, blk, List.replicate]
      · simp [h, blk, List.replicate]

/-- pattern `\\` → `\`: a run of n backslashes halves (rounded up), then c is copied -/
theorem rep2_blk_bs (n : Nat) (c : Char) (hc : c ≠ bs) (rest : List Char) :
    rep2 bs bs (blk n c ++ rest) = blk ((n + 1) / 2) c ++ rep2 bs bs rest := by
  induction n using Nat.strongRecOn with
  | _ n ih =>
    match n with
    | 0 => simp [blk, rep2_cons_ne _ _ _ hc]
    | 1 =>
      simp only [blk, List.replicate, List.nil_append, List.cons_append]
      rw [rep2_cons_cons]
      have : ¬ (bs = bs ∧ c = bs) := by intro h; exact hc h.2
      rw [if_neg this, rep2_cons_ne _ _ _ hc]
      simp [List.replicate]
    | m + 2 =>
      have : blk (m + 2) c ++ rest = bs :: bs :: (blk m c ++ rest) := by
        simp [blk, List.replicate]
      rw [this, rep2_cons_cons]
      simp only [and_self, if_true]
      rw [ih m (by omega)]
      have : (m + 2 + 1) / 2 = (m + 1) / 2 + 1 := by omega
      rw [this]
      simp [blk, List.replicate]
end Esc2
