from runner import *
import os
def case(title, spec, args, stdin=None, quiet=False):
    with Sandbox(spec) as d:
        a = [x.replace('@D', str(d)) if isinstance(x,str) else x for x in args]
        before = snap(d)
        o, e, rc = run(a, stdin)
        after = snap(d)
        print('==', title, '\n args', [x[:80] for x in args], '\n rc', rc)
        if not quiet: print(' out:', o.strip().replace('\n', ' | ')[:500])
        print(' err:', e.strip().replace('\n', ' | ')[:500])
        print(' changed' if before != after else ' unchanged', after if before != after else '')
T = {'in/a': 'A', 'in/.h': 'H', 'in/sub/b': 'B', 'in/sub/.hs/c': 'C', 'in/.hd/d': 'D', 'in/sub/deep/e':'E', 'in/lnk': ('link','sub'), 'in/fl': ('link', 'a')}
case('C07 flat', T, ['X%Name()', '@D/in', '--dry-run'])
case('C07 rec', T, ['-r', 'X%Name()', '@D/in', '--dry-run'])
case('C07 rec hidden', T, ['-r', '-ih', 'X%Name()', '@D/in', '--dry-run'])
case('C07 dir', T, ['-d', 'X%Name()', '@D/in', '--dry-run'])
case('C07 dir rec', T, ['-d', '-r', 'X%Name()', '@D/in', '--dry-run'])
case('C07 explicit hidden', T, ['X%Name()', '@D/in/.h', '@D/in', '--dry-run'])
case('C07 dir real rec', T, ['-d', '-r', 'X%Name()', '@D/in'])
case('C08 mixed types', {'in/1':'', 'in/b': ''}, ['-s', '%Eval(){%Name() if "%Name()".isdigit() else "\'%Name()\'"}', 'X%Name()', '@D/in', '--dry-run'])
case('C08 dir sort', T, ['-d', '-s', '%Name()', 'X%Name()', '@D/in', '--dry-run'])
case('C14 names', {'in/a\'b': '', 'in/q"\'x': '', 'in/n\nl': '', 'in/back\\slash': '', 'in/é': '', 'in/__import__("os")': ''}, ['-s', '%Name(), %Size()', '-ft', 'print(%Name()) or True', '%Count()', '@D/in', '--dry-run'])
case('C03 manual answers', {'in/a':'A','in/b':'B','in/c':'C'}, ['-cm', 'Z', '-s', '%Name()', '@D/in'], stdin='OVER\nCuStOm P\nW\n')
case('C05 manual custom taken dry', {'in/a':'A','in/b':'B'}, ['-cm', 'Z', '-s', '%Name()', '@D/in', '--dry-run'], stdin='c\na\n')
case('C05 manual custom taken real', {'in/a':'A','in/b':'B'}, ['-cm', 'Z', '-s', '%Name()', '@D/in'], stdin='c\nb\n')
