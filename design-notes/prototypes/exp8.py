from runner import *
import os, shutil, hashlib, sys
from tempren.pipeline import build_tag_registry
def fullsnap(root):
    res = {}
    for dp, dn, fn in os.walk(root):
        for n in dn + fn + ['.']:
            p = os.path.join(dp, n); st = os.lstat(p)
            h = hashlib.sha1(open(p,'rb').read()).hexdigest() if os.path.isfile(p) and not os.path.islink(p) else None
            res[os.path.relpath(p, root)] = (st.st_mode, st.st_uid, st.st_size, st.st_mtime_ns, st.st_ctime_ns, st.st_ino, st.st_nlink, h)
    return res
events = []
WATCH = {'os.rename', 'os.remove', 'os.mkdir', 'os.rmdir', 'shutil.move', 'os.chmod', 'os.utime', 'os.truncate', 'os.link', 'os.symlink', 'shutil.copyfile', 'shutil.rmtree'}
active = [False]
def hook(ev, args):
    if not active[0]: return
    if ev in WATCH: events.append((ev, args))
    elif ev == 'open':
        path, mode, flags = args
        if isinstance(flags, int) and flags & (os.O_WRONLY | os.O_RDWR | os.O_CREAT | os.O_TRUNC | os.O_APPEND): events.append((ev, str(path), mode, flags))
sys.addaudithook(hook)
reg = build_tag_registry({}, {})
tmpd = tempfile.mkdtemp(prefix='c04_'); work = os.path.join(tmpd, 'data')
shutil.copytree('/repo/tests/test_data', work, symlinks=True)
dirs = sorted({dp for dp, dn, fn in os.walk(work) if fn})
bad = 0; runs = 0
ARGS = {'IsMime': "'image'", 'Exif': "'Model'", 'IsOrientation': 'landscape'}
for cat, c in sorted(reg.category_map.items()):
    for tname, fac in sorted(c.tag_map.items()):
        rc_ = fac._tag_class.require_context
        if tname == 'Eval': continue
        if rc_ is True: continue
        tmpl = f"X%{cat}.{tname}({ARGS.get(tname, '')})_%Name()"
        for mode in ('-n', '-p'):
            before = fullsnap(work); events.clear(); active[0] = True
            o, e, rc = run(['--dry-run', '-r', mode, tmpl] + [work]); active[0] = False
            after = fullsnap(work); runs += 1
            if before != after or events or os.getcwd() != '/tmp/scratch':
                bad += 1; print('C04 PROBLEM', tmpl, mode, rc, events[:3], [k for k in before if before[k] != after.get(k)][:5])
print('C04 runs', runs, 'problems', bad)
shutil.rmtree(tmpd)
