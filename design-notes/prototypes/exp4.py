from runner import *
import os
def case(title, spec, args, stdin=None, quiet=False):
    with Sandbox(spec) as d:
        a = [x.replace('@D', str(d)) if isinstance(x,str) else x for x in args]
        os.environ['PROBE_LOG'] = str(d / 'probe.log')
        before = snap(d)
        o, e, rc = run(a, stdin)
        after = snap(d)
        print('==', title, '\n args', [x[:80] for x in args], '\n rc', rc)
        if not quiet: print(' out:', o.strip().replace('\n', ' | ')[:400])
        print(' err:', e.strip().replace('\n', ' | ')[:600])
        if (d/'probe.log').exists(): print(' probe:', (d/'probe.log').read_text().replace('\n',' ; '))
        after.pop('probe.log', None)
        print(' changed' if before != after else ' unchanged', after if before != after else '')
F = {'in/a.txt': 'A', 'in/sub/-b c;$(x)': 'B'}
P = '/tmp/scratch/probe.sh'
case('C20 noctx', F, ['-r', '-p', '-ah', f'P={P}', "%Dir()/%P('--x y', '$(touch pwn)', '', '*'){}Z", '@D/in', '--dry-run'])
case('C20 noctx2', F, ['-r', '-p', '-ah', f'P={P}', "%Dir()/%P('--x y', '$(touch pwn)', '', '*')Z", '@D/in', '--dry-run'])
case('C20 ctx', F, ['-ah', f'P={P}', "%P('-n'){l1 é %Name()}Z", '@D/in', '--dry-run'])
case('C20 emptyctx', F, ['-ah', f'P={P}', "%P('-n'){%Ext()}Z", '@D/in', '--dry-run', '-fg', 'nomatch*'])
