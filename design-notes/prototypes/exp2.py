from runner import *
def case(title, spec, args, stdin=None):
    with Sandbox(spec) as d:
        a = [x.replace('@D', str(d)) if isinstance(x,str) else x for x in args]
        before = snap(d)
        o, e, rc = run(a, stdin)
        after = snap(d)
        print('==', title, '\n args', args, '\n rc', rc)
        print(' out:', o.strip().replace('\n', ' | '))
        print(' err:', e.strip().replace('\n', ' | '))
        print(' before', before); print(' after ', after)

# C01 dangling symlink destination
case('C01 dangling', {'in/a': 'A', 'in/b': ('link', 'nowhere')}, ['b', '@D/in', '-fg', 'a'])
# C02/C05 two input directories
case('C02 two roots chain', {'r1/0':'r1-0','r1/1':'r1-1','r2/0':'r2-0', 'r2/1': 'r2-1'}, ['%Count(start=1)', '@D/r1', '@D/r2', '-s', '%Name()'])
case('C02 two roots deferred wrong dir', {'r1/a':'r1a','r1/b':'r1b','r2/a':'r2a','r2/z':'r2z'}, ['b', '-fg', '[az]', '@D/r1', '@D/r2'])
case('C05 dry two roots x', {'r1/x':'1','r2/x':'2'}, ['--dry-run', 'y', '@D/r1', '@D/r2'])
case('C05 real two roots x', {'r1/x':'1','r2/x':'2'}, ['y', '@D/r1', '@D/r2'])
# C06 prefix
case('C06 prefix escape', {'in/a':'A', 'in2/keep': 'k'}, ['-p', '../in2/%Name()', '@D/in'])
